//! E-IR: in-process compilation with a pre-compiled `std` namespace (one per thread / Engines).
use std::path::PathBuf;
use std::sync::atomic::{AtomicU64, Ordering};
use sway_core::{
    asm_to_bytecode, ast_to_asm, compile_ir_context_to_finalized_asm, compile_to_ast,
    ir_generation::compile_program,
    language::Programs,
    namespace::{self, Package},
    source_map::SourceMap,
    BuildConfig, BuildTarget, CompiledAsm, DbgGeneration, Engines, OptLevel, PanicOccurrences, PanickingCallOccurrences,
};
use sway_error::handler::Handler;
use sway_features::ExperimentalFeatures;
use sway_types::{Ident, ProgramId};
use vcommon::*;

static NEXT_DIR: AtomicU64 = AtomicU64::new(0);

pub struct FastCompiler {
    pub engines: Engines,
    pub std_pkg: namespace::Package,
    pub dir: PathBuf,
    pub exp: ExperimentalFeatures,
    pub compiled: u64,
    next_pid: u16,
}

#[derive(Debug, Clone)]
pub struct CompileFail {
    pub errors: Vec<String>,
    pub internal: bool,  // some error is CompileError::Internal/InternalOwned
    pub stage: &'static str,
}

pub struct Compiled {
    pub bytecode: Vec<u8>,
    pub warnings: usize,
}

fn scratch_dir(tag: &str) -> PathBuf {
    let n = NEXT_DIR.fetch_add(1, Ordering::Relaxed);
    let d = scratch_root().join(format!("{tag}-{}-{n}", std::process::id()));
    let _ = std::fs::remove_dir_all(&d);
    std::fs::create_dir_all(d.join("src")).unwrap();
    d
}

impl FastCompiler {
    /// Compile `std` once (through forc_pkg::check on a scratch library depending on /repo/sway-lib-std by path).
    pub fn new() -> anyhow::Result<FastCompiler> {
        let dir = scratch_dir("fastc");
        let std_path = repo_root().join("sway-lib-std");
        std::fs::write(
            dir.join("Forc.toml"),
            format!("[project]\nauthors = [\"vp\"]\nentry = \"lib.sw\"\nlicense = \"Apache-2.0\"\nname = \"vp_probe\"\nimplicit-std = false\n\n[dependencies]\nstd = {{ path = \"{}\" }}\n", std_path.display()),
        )?;
        std::fs::write(dir.join("src/lib.sw"), "library;\n")?;
        let engines = Engines::default();
        let plan = forc_pkg::BuildPlan::from_pkg_opts(&forc_pkg::PkgOpts { path: Some(dir.display().to_string()), offline: true, terse: true, ..Default::default() })?;
        let res = forc_pkg::check(&plan, BuildTarget::Fuel, true, None, false, &engines, None, &[], &[], DbgGeneration::None)?;
        let (programs, handler) = res.into_iter().next().ok_or_else(|| anyhow::anyhow!("no check result"))?;
        let errs: Vec<String> = handler.consume().0.iter().map(|e| e.to_string()).take(3).collect();
        let programs = programs.ok_or_else(|| anyhow::anyhow!("std did not compile: {:?}", errs))?;
        let typed = programs.typed.as_ref().map_err(|_| anyhow::anyhow!("std failed type check: {:?}", errs))?;
        let std_pkg = typed.namespace.current_package_ref().clone();
        Ok(FastCompiler { engines, std_pkg, dir, exp: ExperimentalFeatures::default(), compiled: 0, next_pid: 100 })
    }

    pub fn build_config(&self, file: &str, opt: OptLevel) -> BuildConfig {
        let cfg = BuildConfig::root_from_file_name_and_manifest_path(self.dir.join("src").join(file), self.dir.clone(), BuildTarget::Fuel, DbgGeneration::None).with_optimization_level(opt);
        if std::env::var("VP_PRINT_IR").is_ok() {
            // development aid: print the IR after every modifying pass
            return cfg.with_print_ir(sway_core::IrCli { initial: true, r#final: true, modified_only: true, print_metadata: false, passes: vec!["all".to_string()] });
        }
        cfg
    }

    fn fresh_namespace(&mut self, name: &str) -> Package {
        self.next_pid = self.next_pid.wrapping_add(1).max(100);
        let mut ns = Package::new(Ident::new_no_span(name.to_string()), None, ProgramId::new(self.next_pid), false);
        ns.add_external("std".to_owned(), self.std_pkg.clone());
        ns
    }

    /// Parse + type check. Returns the handler too (for diagnostics-based properties).
    pub fn to_ast(&mut self, src: &str, opt: OptLevel) -> (Result<Programs, ()>, Handler, BuildConfig) {
        self.compiled += 1;
        // A unique, really existing root module per compilation: sway-core's query engine caches parsed/typed programs
        // per path and validates entries against the file on disk.
        let file = format!("m{}.sw", self.compiled);
        let path = self.dir.join("src").join(&file);
        let _ = std::fs::write(&path, src);
        let cfg = self.build_config(&file, opt);
        let handler = Handler::default();
        // A unique package name per compilation: the engines are shared by the programs of one thread, and forc never
        // builds two different packages of the same name with one Engines value (type and monomorphisation caches are
        // keyed by call paths such as `vp_case::S0`).
        let name = format!("vp_case_{}", self.compiled);
        let ns = self.fresh_namespace(&name);
        let r = compile_to_ast(&handler, &self.engines, src.into(), ns, Some(&cfg), &name, None, self.exp);
        let _ = std::fs::remove_file(&path);
        (r.map_err(|_| ()), handler, cfg)
    }

    fn fail(handler: Handler, stage: &'static str) -> CompileFail {
        let (errs, _, _) = handler.consume();
        let internal = errs.iter().any(|e| matches!(e, sway_error::error::CompileError::Internal(..) | sway_error::error::CompileError::InternalOwned(..)));
        use sway_types::Spanned;
        let fmt = |e: &sway_error::error::CompileError| {
            let sp = e.span();
            let lc = sp.start_line_col_one_index();
            let line = sp.src().text.lines().nth(lc.line.saturating_sub(1)).unwrap_or("").trim().to_string();
            format!("{} @ line {}: `{}` [span `{}`]", e, lc.line, truncate(&line, 160), truncate(sp.as_str(), 80))
        };
        CompileFail { errors: errs.iter().map(fmt).collect(), internal, stage }
    }

    /// Full real pipeline (compile_to_ast -> ast_to_asm -> asm_to_bytecode) at the given optimisation level.
    pub fn compile(&mut self, src: &str, opt: OptLevel) -> Result<Compiled, CompileFail> {
        let (progs, handler, cfg) = self.to_ast(src, opt);
        let progs = match progs {
            Ok(p) if p.typed.is_ok() && !handler.has_errors() => p,
            _ => return Err(Self::fail(handler, "ast")),
        };
        let mut asm = match ast_to_asm(&handler, &self.engines, &progs, &cfg, self.exp) {
            Ok(a) if !handler.has_errors() => a,
            _ => return Err(Self::fail(handler, "asm")),
        };
        let bc = match asm_to_bytecode(&handler, &mut asm, &mut SourceMap::new(), self.engines.se(), &cfg) {
            Ok(b) if !handler.has_errors() => b,
            _ => return Err(Self::fail(handler, "bytecode")),
        };
        let (_, w, _) = handler.consume();
        Ok(Compiled { bytecode: bc.bytecode, warnings: w.len() })
    }

    /// Typed program -> initial IR (what compile_ast_to_ir_to_asm starts from); `f` may transform / inspect the IR and
    /// says whether to continue to the backend. Returns f's value and, if requested, the bytecode.
    pub fn with_ir<T>(
        &mut self,
        src: &str,
        f: impl FnOnce(&mut sway_ir::Context, &Engines, ExperimentalFeatures) -> (T, bool),
    ) -> Result<(T, Option<Result<Vec<u8>, CompileFail>>), CompileFail> {
        let (progs, handler, cfg) = self.to_ast(src, OptLevel::Opt0);
        let progs = match progs {
            Ok(p) if p.typed.is_ok() && !handler.has_errors() => p,
            _ => return Err(Self::fail(handler, "ast")),
        };
        let typed = progs.typed.as_ref().unwrap().clone();
        let mut po = PanicOccurrences::default();
        let mut pco = PanickingCallOccurrences::default();
        let (t, fin) = {
            let mut ir = match catch(|| compile_program(&typed, &mut po, &mut pco, false, &self.engines, self.exp, Default::default())) {
                Ok(Ok(ir)) => ir,
                Ok(Err(errs)) => return Err(CompileFail { errors: errs.iter().map(|e| e.to_string()).collect(), internal: true, stage: "irgen" }),
                Err(p) => return Err(CompileFail { errors: vec![format!("PANIC at {}: {}", p.location, p.message)], internal: true, stage: "panic" }),
            };
            let (t, cont) = f(&mut ir, &self.engines, self.exp);
            if !cont {
                return Ok((t, None));
            }
            let handler = Handler::default();
            let fin = match compile_ir_context_to_finalized_asm(&handler, &ir, Some(&cfg)) {
                Ok(f) if !handler.has_errors() => Ok(f),
                _ => Err(Self::fail(handler, "backend")),
            };
            (t, fin)
        };
        let fin = match fin {
            Ok(f) => f,
            Err(e) => return Ok((t, Some(Err(e)))),
        };
        let handler = Handler::default();
        let mut asm = CompiledAsm { finalized_asm: fin, panic_occurrences: po, panicking_call_occurrences: pco };
        let bc = match asm_to_bytecode(&handler, &mut asm, &mut SourceMap::new(), self.engines.se(), &cfg) {
            Ok(b) if !handler.has_errors() => Ok(b.bytecode),
            _ => Err(Self::fail(handler, "bytecode")),
        };
        Ok((t, Some(bc)))
    }

    /// IR text -> bytecode (parser + real backend).
    pub fn ir_text_to_bytecode(&self, text: &str) -> Result<Vec<u8>, CompileFail> {
        let cfg = self.build_config("main.sw", OptLevel::Opt0);
        let ir = sway_ir::parser::parse(text, self.engines.se(), self.exp, Default::default())
            .map_err(|e| CompileFail { errors: vec![e.to_string()], internal: false, stage: "ir-parse" })?;
        let handler = Handler::default();
        let fin = match compile_ir_context_to_finalized_asm(&handler, &ir, Some(&cfg)) {
            Ok(f) if !handler.has_errors() => f,
            _ => return Err(Self::fail(handler, "backend")),
        };
        drop(ir);
        let mut asm = CompiledAsm { finalized_asm: fin, panic_occurrences: Default::default(), panicking_call_occurrences: Default::default() };
        match asm_to_bytecode(&handler, &mut asm, &mut SourceMap::new(), self.engines.se(), &cfg) {
            Ok(b) if !handler.has_errors() => Ok(b.bytecode),
            _ => Err(Self::fail(handler, "bytecode")),
        }
    }
}


/// A type-checked program from which fresh initial IR can be produced any number of times.
pub struct TypedProgram {
    pub programs: Programs,
    pub cfg: BuildConfig,
}
impl FastCompiler {
    /// Parse + type check only (OptLevel is irrelevant before IR generation; Opt0 config is kept for the backend).
    pub fn typed(&mut self, src: &str) -> Result<TypedProgram, CompileFail> {
        let (progs, handler, cfg) = match catch(|| self.to_ast(src, OptLevel::Opt0)) {
            Ok(r) => r,
            Err(p) => return Err(CompileFail { errors: vec![format!("PANIC at {}: {}", p.location, p.message)], internal: true, stage: "panic" }),
        };
        match progs {
            Ok(p) if p.typed.is_ok() && !handler.has_errors() => Ok(TypedProgram { programs: p, cfg }),
            _ => Err(Self::fail(handler, "ast")),
        }
    }
    /// Fresh initial IR of `t` (what compile_ast_to_ir_to_asm starts from, before any pass) handed to `f`, which may
    /// transform it and says whether to continue to the real backend (compile_ir_context_to_finalized_asm +
    /// asm_to_bytecode). Can be called any number of times per typed program.
    pub fn with_fresh_ir<T>(&self, t: &TypedProgram, f: impl FnOnce(&mut sway_ir::Context) -> (T, bool)) -> Result<(T, Option<Result<Vec<u8>, CompileFail>>), CompileFail> {
        let typed = t.programs.typed.as_ref().unwrap().clone();
        let mut po = PanicOccurrences::default();
        let mut pco = PanickingCallOccurrences::default();
        let (v, fin) = {
            let mut ir = match catch(|| compile_program(&typed, &mut po, &mut pco, false, &self.engines, self.exp, Default::default())) {
                Ok(Ok(ir)) => ir,
                Ok(Err(errs)) => return Err(CompileFail { errors: errs.iter().map(|e| e.to_string()).collect(), internal: true, stage: "irgen" }),
                Err(p) => return Err(CompileFail { errors: vec![format!("PANIC at {}: {}", p.location, p.message)], internal: true, stage: "panic" }),
            };
            let (v, cont) = f(&mut ir);
            if !cont {
                return Ok((v, None));
            }
            let handler = Handler::default();
            let fin = match compile_ir_context_to_finalized_asm(&handler, &ir, Some(&t.cfg)) {
                Ok(f) if !handler.has_errors() => Ok(f),
                _ => Err(Self::fail(handler, "backend")),
            };
            (v, fin)
        };
        let fin = match fin {
            Ok(f) => f,
            Err(e) => return Ok((v, Some(Err(e)))),
        };
        let handler = Handler::default();
        let mut asm = CompiledAsm { finalized_asm: fin, panic_occurrences: po, panicking_call_occurrences: pco };
        let bc = match asm_to_bytecode(&handler, &mut asm, &mut SourceMap::new(), self.engines.se(), &t.cfg) {
            Ok(b) if !handler.has_errors() => Ok(b.bytecode),
            _ => Err(Self::fail(handler, "bytecode")),
        };
        Ok((v, Some(bc)))
    }
}

impl Drop for FastCompiler {
    fn drop(&mut self) {
        let _ = std::fs::remove_dir_all(&self.dir);
    }
}

thread_local! {
    static TL_FASTC: std::cell::RefCell<Option<FastCompiler>> = const { std::cell::RefCell::new(None) };
}
/// Per-thread compiler, re-created every `recycle` programs so that Engines do not grow without bound.
pub fn with_fastc<T>(recycle: u64, f: impl FnOnce(&mut FastCompiler) -> T) -> T {
    TL_FASTC.with(|c| {
        let mut c = c.borrow_mut();
        if c.as_ref().map(|x| x.compiled >= recycle).unwrap_or(true) {
            *c = None;
            *c = Some(FastCompiler::new().expect("std must compile"));
        }
        f(c.as_mut().unwrap())
    })
}
/// After a compiler panic was caught, the engines of this thread may still hold locks that the unwinding never released
/// (the next compilation, or dropping them, then blocks forever): leak the thread's compiler instead of dropping it.
pub fn forget_thread_fastc() {
    TL_FASTC.with(|c| {
        if let Some(fc) = c.borrow_mut().take() {
            let _ = std::fs::remove_dir_all(&fc.dir);
            std::mem::forget(fc);
        }
    });
}
pub fn drop_thread_fastc() {
    TL_FASTC.with(|c| *c.borrow_mut() = None);
}
