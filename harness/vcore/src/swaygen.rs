//! E-GEN: typed Sway program generator (tape driven, so proptest shrinks the tape), source emitter and
//! reference interpreter for the fragment listed in DESIGN.md 3.4.
use num_bigint::BigUint;
use num_traits::{One, Zero};
use std::collections::BTreeMap;
use std::fmt::Write;

// ------------------------------------------------------------------------------------------------
// tape

pub struct Tape<'a> {
    data: &'a [u16],
    pos: usize,
}
impl<'a> Tape<'a> {
    pub fn new(data: &'a [u16]) -> Self {
        Tape { data, pos: 0 }
    }
    pub fn next(&mut self) -> u16 {
        let v = self.data.get(self.pos).copied().unwrap_or(0);
        self.pos += 1;
        v
    }
    /// monotone choice in 0..n (0 when the tape is exhausted)
    pub fn below(&mut self, n: usize) -> usize {
        if n <= 1 {
            return 0;
        }
        ((self.next() as usize) * n) >> 16
    }
    pub fn chance(&mut self, pct: u32) -> bool {
        ((self.next() as u32) * 100) >> 16 < pct
    }
    pub fn exhausted(&self) -> bool {
        self.pos >= self.data.len()
    }
    /// weighted choice; weights in order, index returned
    pub fn weighted(&mut self, w: &[u32]) -> usize {
        let total: u32 = w.iter().sum();
        if total == 0 {
            return 0;
        }
        let mut x = ((self.next() as u64) * total as u64 >> 16) as u32;
        for (i, wi) in w.iter().enumerate() {
            if x < *wi {
                return i;
            }
            x -= wi;
        }
        w.len() - 1
    }
}

// ------------------------------------------------------------------------------------------------
// types and values

#[derive(Clone, Debug, PartialEq, Eq, Hash, PartialOrd, Ord)]
pub enum Ty {
    U8,
    U16,
    U32,
    U64,
    U256,
    Bool,
    B256,
    Unit,
    Tuple(Vec<Ty>),
    Struct(usize),
    Enum(usize),
    Array(Box<Ty>, usize),
}
impl Ty {
    pub fn bits(&self) -> Option<u16> {
        match self {
            Ty::U8 => Some(8),
            Ty::U16 => Some(16),
            Ty::U32 => Some(32),
            Ty::U64 => Some(64),
            Ty::U256 => Some(256),
            _ => None,
        }
    }
    pub fn is_int(&self) -> bool {
        self.bits().is_some()
    }
    pub fn of_bits(b: u16) -> Ty {
        match b {
            8 => Ty::U8,
            16 => Ty::U16,
            32 => Ty::U32,
            64 => Ty::U64,
            _ => Ty::U256,
        }
    }
}
pub const INT_TYS: [Ty; 5] = [Ty::U64, Ty::U8, Ty::U32, Ty::U256, Ty::U16];

#[derive(Clone, Debug, PartialEq, Eq)]
pub enum Val {
    Int(u16, BigUint),
    Bool(bool),
    B256([u8; 32]),
    Unit,
    Tuple(Vec<Val>),
    Struct(usize, Vec<Val>),
    Enum(usize, usize, Box<Val>),
    Array(Vec<Val>),
    /// lazy reference semantics only: the result of arithmetic that had to abort (see `Interp::run_lazy`)
    Poison,
}
pub fn max_of(bits: u16) -> BigUint {
    (BigUint::one() << bits as usize) - BigUint::one()
}
impl Val {
    pub fn u64(v: u64) -> Val {
        Val::Int(64, BigUint::from(v))
    }
    pub fn int(bits: u16, v: u64) -> Val {
        Val::Int(bits, BigUint::from(v))
    }
    pub fn as_u64(&self) -> u64 {
        match self {
            Val::Int(_, v) => v.iter_u64_digits().next().unwrap_or(0),
            _ => 0,
        }
    }
    /// canonical ABI (encoding v1) bytes
    pub fn encode(&self, out: &mut Vec<u8>) {
        match self {
            Val::Int(bits, v) => {
                let n = (*bits / 8) as usize;
                let b = v.to_bytes_be();
                out.extend(std::iter::repeat(0u8).take(n.saturating_sub(b.len())));
                out.extend_from_slice(&b[b.len().saturating_sub(n)..]);
            }
            Val::Bool(b) => out.push(*b as u8),
            Val::B256(b) => out.extend_from_slice(b),
            Val::Unit => {}
            Val::Tuple(vs) | Val::Struct(_, vs) | Val::Array(vs) => vs.iter().for_each(|v| v.encode(out)),
            Val::Enum(_, tag, p) => {
                out.extend_from_slice(&(*tag as u64).to_be_bytes());
                p.encode(out);
            }
            Val::Poison => panic!("interpreter bug: poison value encoded"),
        }
    }
    pub fn has_poison(&self) -> bool {
        match self {
            Val::Poison => true,
            Val::Tuple(vs) | Val::Struct(_, vs) | Val::Array(vs) => vs.iter().any(|v| v.has_poison()),
            Val::Enum(_, _, p) => p.has_poison(),
            _ => false,
        }
    }
    pub fn encoded(&self) -> Vec<u8> {
        let mut v = vec![];
        self.encode(&mut v);
        v
    }
}

#[derive(Clone, Debug)]
pub struct StructDecl {
    pub fields: Vec<Ty>,
}
#[derive(Clone, Debug)]
pub struct EnumDecl {
    pub variants: Vec<Ty>, // Ty::Unit for unit variants
}

// ------------------------------------------------------------------------------------------------
// AST

#[derive(Clone, Copy, Debug, PartialEq, Eq, Hash, PartialOrd, Ord)]
pub enum BinOp {
    Add,
    Sub,
    Mul,
    Div,
    Rem,
    And,
    Or,
    Xor,
    Shl,
    Shr,
    Eq,
    Ne,
    Lt,
    Gt,
    Le,
    Ge,
    LAnd,
    LOr,
}
impl BinOp {
    pub fn sym(self) -> &'static str {
        match self {
            BinOp::Add => "+",
            BinOp::Sub => "-",
            BinOp::Mul => "*",
            BinOp::Div => "/",
            BinOp::Rem => "%",
            BinOp::And => "&",
            BinOp::Or => "|",
            BinOp::Xor => "^",
            BinOp::Shl => "<<",
            BinOp::Shr => ">>",
            BinOp::Eq => "==",
            BinOp::Ne => "!=",
            BinOp::Lt => "<",
            BinOp::Gt => ">",
            BinOp::Le => "<=",
            BinOp::Ge => ">=",
            BinOp::LAnd => "&&",
            BinOp::LOr => "||",
        }
    }
}
const ARITH: [BinOp; 8] = [BinOp::Add, BinOp::Sub, BinOp::Mul, BinOp::Div, BinOp::Rem, BinOp::And, BinOp::Or, BinOp::Xor];
const CMP: [BinOp; 6] = [BinOp::Eq, BinOp::Ne, BinOp::Lt, BinOp::Gt, BinOp::Le, BinOp::Ge];

#[derive(Clone, Debug)]
pub enum Expr {
    Lit(Val),
    Var(String),
    Not(Box<Expr>),
    /// operand type (for ints) recorded for the interpreter's width and the shift masks
    Bin(BinOp, Ty, Box<Expr>, Box<Expr>),
    /// widening cast src -> dst (as_u16/as_u32/as_u64/as_u256)
    Cast(Ty, Ty, Box<Expr>),
    Tuple(Vec<Expr>),
    TupleGet(Box<Expr>, usize),
    StructLit(usize, Vec<Expr>),
    Field(Box<Expr>, usize),
    EnumLit(usize, usize, Box<Expr>),
    ArrayLit(Vec<Expr>),
    /// array, index (u64 expr), length; emitted as a[(i) % len]
    Index(Box<Expr>, Box<Expr>, usize),
    If(Box<Expr>, Box<Block>, Box<Block>),
    /// match on an enum value: one arm per variant with a binder name
    MatchEnum(Box<Expr>, usize, Vec<(String, Block)>),
    /// match on an integer: literal arms + default
    MatchInt(Box<Expr>, Ty, Vec<(u64, Block)>, Box<Block>),
    Call(usize, Vec<Expr>),
    Block(Box<Block>),
}
#[derive(Clone, Debug)]
pub struct Block {
    pub stmts: Vec<Stmt>,
    pub result: Expr,
}
#[derive(Clone, Debug)]
pub enum PathEl {
    Field(usize),
    Tuple(usize),
    /// index expression (pure, cannot abort), array length
    Index(Expr, usize),
}
#[derive(Clone, Debug)]
pub enum Stmt {
    Let { name: String, mutable: bool, ty: Ty, init: Expr },
    Assign { var: String, path: Vec<PathEl>, value: Expr },
    While { counter: String, bound: u64, cond: Option<Expr>, body: Vec<Stmt> },
    If { cond: Expr, then: Vec<Stmt>, els: Vec<Stmt> },
    Break,
    Continue,
    Return(Expr),
    Assert(Expr),
    Require(Expr, Expr),
    Log(Expr),
}
#[derive(Clone, Debug)]
pub struct FnDecl {
    pub params: Vec<(String, Ty)>,
    pub ret: Ty,
    pub body: Block,
    pub inline: u8, // 0 none, 1 never, 2 always
}
#[derive(Clone, Debug)]
pub struct Program {
    pub structs: Vec<StructDecl>,
    pub enums: Vec<EnumDecl>,
    pub fns: Vec<FnDecl>, // last one is main
    pub shape: Vec<&'static str>,
}
pub const MAIN_PARAMS: [(&str, Ty); 6] = [("a", Ty::U64), ("b", Ty::U64), ("c", Ty::U8), ("d", Ty::U256), ("e", Ty::Bool), ("f", Ty::U32)];

// ------------------------------------------------------------------------------------------------
// emitter

pub fn ty_str(t: &Ty) -> String {
    match t {
        Ty::U8 => "u8".into(),
        Ty::U16 => "u16".into(),
        Ty::U32 => "u32".into(),
        Ty::U64 => "u64".into(),
        Ty::U256 => "u256".into(),
        Ty::Bool => "bool".into(),
        Ty::B256 => "b256".into(),
        Ty::Unit => "()".into(),
        Ty::Tuple(ts) => format!("({})", ts.iter().map(ty_str).collect::<Vec<_>>().join(", ")),
        Ty::Struct(i) => format!("S{i}"),
        Ty::Enum(i) => format!("E{i}"),
        Ty::Array(t, n) => format!("[{}; {}]", ty_str(t), n),
    }
}
fn lit_str(v: &Val) -> String {
    match v {
        Val::Int(256, x) => format!("0x{:064x}u256", x),
        Val::Int(b, x) => format!("{}u{}", x, b),
        Val::Bool(b) => b.to_string(),
        Val::B256(b) => format!("0x{}", hex::encode(b)),
        Val::Unit => "()".into(),
        Val::Tuple(vs) => format!("({})", vs.iter().map(lit_str).collect::<Vec<_>>().join(", ")),
        Val::Struct(i, vs) => format!("S{i} {{ {} }}", vs.iter().enumerate().map(|(k, v)| format!("f{k}: {}", lit_str(v))).collect::<Vec<_>>().join(", ")),
        Val::Enum(e, t, p) => {
            if **p == Val::Unit {
                format!("E{e}::V{t}")
            } else {
                format!("E{e}::V{t}({})", lit_str(p))
            }
        }
        Val::Array(vs) => format!("[{}]", vs.iter().map(lit_str).collect::<Vec<_>>().join(", ")),
        Val::Poison => panic!("interpreter bug: poison literal"),
    }
}
pub struct EmitOpts {
    /// keep shift amounts below the operand width (required when the reference interpreter is the oracle)
    pub mask_shifts: bool,
    /// operands of + - * / % are masked so that no arithmetic trap (overflow, underflow, division by zero) can occur
    pub no_trap: bool,
}
pub fn emit_expr(e: &Expr, o: &EmitOpts, ind: usize, s: &mut String) {
    match e {
        Expr::Lit(v) => s.push_str(&lit_str(v)),
        Expr::Var(n) => s.push_str(n),
        Expr::Not(x) => {
            s.push_str("!(");
            emit_expr(x, o, ind, s);
            s.push(')');
        }
        Expr::Bin(op, ty, a, b) if o.no_trap && ty.is_int() && matches!(op, BinOp::Add | BinOp::Sub | BinOp::Mul | BinOp::Div | BinOp::Rem) => {
            let w = ty.bits().unwrap_or(64);
            let one = BigUint::from(1u8);
            let lit = |v: BigUint| lit_str(&Val::Int(w, v));
            let half = lit((&one << (w as usize - 1)) - &one); // 2^(w-1) - 1
            let high = lit(&one << (w as usize - 1));
            let sqrt = lit((&one << (w as usize / 2)) - &one);
            let (la, lb) = match op {
                BinOp::Add => (format!(" & {half}"), format!(" & {half}")),
                BinOp::Sub => (format!(" | {high}"), format!(" & {half}")),
                BinOp::Mul => (format!(" & {sqrt}"), format!(" & {sqrt}")),
                _ => (String::new(), format!(" | {}", lit(one.clone()))),
            };
            s.push_str("((");
            emit_expr(a, o, ind, s);
            let _ = write!(s, "{la}) {} (", op.sym());
            emit_expr(b, o, ind, s);
            let _ = write!(s, "{lb}))");
        }
        Expr::Bin(op, ty, a, b) => {
            s.push('(');
            emit_expr(a, o, ind, s);
            let _ = write!(s, " {} ", op.sym());
            if matches!(op, BinOp::Shl | BinOp::Shr) && o.mask_shifts {
                s.push_str("((");
                emit_expr(b, o, ind, s);
                let _ = write!(s, ") % {}u64)", ty.bits().unwrap_or(64));
            } else {
                emit_expr(b, o, ind, s);
            }
            s.push(')');
        }
        Expr::Cast(_, dst, x) => {
            s.push('(');
            emit_expr(x, o, ind, s);
            let _ = write!(s, ").as_{}()", ty_str(dst));
        }
        Expr::Tuple(xs) => {
            s.push('(');
            for (i, x) in xs.iter().enumerate() {
                if i > 0 {
                    s.push_str(", ");
                }
                emit_expr(x, o, ind, s);
            }
            s.push(')');
        }
        Expr::TupleGet(x, i) => {
            emit_expr(x, o, ind, s);
            let _ = write!(s, ".{i}");
        }
        Expr::StructLit(i, xs) => {
            let _ = write!(s, "S{i} {{ ");
            for (k, x) in xs.iter().enumerate() {
                if k > 0 {
                    s.push_str(", ");
                }
                let _ = write!(s, "f{k}: ");
                emit_expr(x, o, ind, s);
            }
            s.push_str(" }");
        }
        Expr::Field(x, i) => {
            emit_expr(x, o, ind, s);
            let _ = write!(s, ".f{i}");
        }
        Expr::EnumLit(e, t, p) => {
            let _ = write!(s, "E{e}::V{t}");
            if !matches!(**p, Expr::Lit(Val::Unit)) {
                s.push('(');
                emit_expr(p, o, ind, s);
                s.push(')');
            }
        }
        Expr::ArrayLit(xs) => {
            s.push('[');
            for (i, x) in xs.iter().enumerate() {
                if i > 0 {
                    s.push_str(", ");
                }
                emit_expr(x, o, ind, s);
            }
            s.push(']');
        }
        Expr::Index(a, i, n) => {
            emit_expr(a, o, ind, s);
            s.push_str("[((");
            emit_expr(i, o, ind, s);
            let _ = write!(s, ") % {n}u64)]");
        }
        Expr::If(c, t, f) => {
            s.push_str("if ");
            emit_expr(c, o, ind, s);
            s.push(' ');
            emit_block(t, o, ind, s);
            s.push_str(" else ");
            emit_block(f, o, ind, s);
        }
        Expr::MatchEnum(x, en, arms) => {
            s.push_str("match ");
            emit_expr(x, o, ind, s);
            s.push_str(" {\n");
            for (t, (binder, b)) in arms.iter().enumerate() {
                pad(ind + 1, s);
                if binder.is_empty() {
                    let _ = write!(s, "E{en}::V{t} => ");
                } else {
                    let _ = write!(s, "E{en}::V{t}({binder}) => ");
                }
                emit_block(b, o, ind + 1, s);
                s.push_str(",\n");
            }
            pad(ind, s);
            s.push('}');
        }
        Expr::MatchInt(x, ty, arms, def) => {
            s.push_str("match ");
            emit_expr(x, o, ind, s);
            s.push_str(" {\n");
            for (k, b) in arms {
                pad(ind + 1, s);
                let _ = write!(s, "{} => ", lit_str(&Val::Int(ty.bits().unwrap_or(64), BigUint::from(*k))));
                emit_block(b, o, ind + 1, s);
                s.push_str(",\n");
            }
            pad(ind + 1, s);
            s.push_str("_ => ");
            emit_block(def, o, ind + 1, s);
            s.push_str(",\n");
            pad(ind, s);
            s.push('}');
        }
        Expr::Call(f, args) => {
            let _ = write!(s, "f{f}(");
            for (i, x) in args.iter().enumerate() {
                if i > 0 {
                    s.push_str(", ");
                }
                emit_expr(x, o, ind, s);
            }
            s.push(')');
        }
        Expr::Block(b) => emit_block(b, o, ind, s),
    }
}
fn pad(ind: usize, s: &mut String) {
    for _ in 0..ind {
        s.push_str("    ");
    }
}
pub fn emit_block(b: &Block, o: &EmitOpts, ind: usize, s: &mut String) {
    s.push_str("{\n");
    for st in &b.stmts {
        emit_stmt(st, o, ind + 1, s);
    }
    pad(ind + 1, s);
    emit_expr(&b.result, o, ind + 1, s);
    s.push('\n');
    pad(ind, s);
    s.push('}');
}
fn emit_stmts(v: &[Stmt], o: &EmitOpts, ind: usize, s: &mut String) {
    s.push_str("{\n");
    for st in v {
        emit_stmt(st, o, ind + 1, s);
    }
    pad(ind, s);
    s.push('}');
}
pub fn emit_stmt(st: &Stmt, o: &EmitOpts, ind: usize, s: &mut String) {
    pad(ind, s);
    match st {
        Stmt::Let { name, mutable, ty, init } => {
            let _ = write!(s, "let {}{}: {} = ", if *mutable { "mut " } else { "" }, name, ty_str(ty));
            emit_expr(init, o, ind, s);
            s.push_str(";\n");
        }
        Stmt::Assign { var, path, value } => {
            s.push_str(var);
            for p in path {
                match p {
                    PathEl::Field(i) => {
                        let _ = write!(s, ".f{i}");
                    }
                    PathEl::Tuple(i) => {
                        let _ = write!(s, ".{i}");
                    }
                    PathEl::Index(e, n) => {
                        s.push_str("[((");
                        emit_expr(e, o, ind, s);
                        let _ = write!(s, ") % {n}u64)]");
                    }
                }
            }
            s.push_str(" = ");
            emit_expr(value, o, ind, s);
            s.push_str(";\n");
        }
        Stmt::While { counter, bound, cond, body } => {
            let _ = write!(s, "let mut {counter}: u64 = 0u64;\n");
            pad(ind, s);
            let _ = write!(s, "while {counter} < {bound}u64");
            if let Some(c) = cond {
                s.push_str(" && ");
                emit_expr(c, o, ind, s);
            }
            s.push_str(" {\n");
            pad(ind + 1, s);
            let _ = write!(s, "{counter} = {counter} + 1u64;\n");
            for b in body {
                emit_stmt(b, o, ind + 1, s);
            }
            pad(ind, s);
            s.push_str("};\n");
        }
        Stmt::If { cond, then, els } => {
            s.push_str("if ");
            emit_expr(cond, o, ind, s);
            s.push(' ');
            emit_stmts(then, o, ind, s);
            if !els.is_empty() {
                s.push_str(" else ");
                emit_stmts(els, o, ind, s);
            }
            // `;` so that a following line starting with `[` or `(` is not parsed as an index / call on the `if`
            s.push_str(";\n");
        }
        Stmt::Break => s.push_str("break;\n"),
        Stmt::Continue => s.push_str("continue;\n"),
        Stmt::Return(e) => {
            s.push_str("return ");
            emit_expr(e, o, ind, s);
            s.push_str(";\n");
        }
        Stmt::Assert(e) => {
            s.push_str("assert(");
            emit_expr(e, o, ind, s);
            s.push_str(");\n");
        }
        Stmt::Require(c, v) => {
            s.push_str("require(");
            emit_expr(c, o, ind, s);
            s.push_str(", ");
            emit_expr(v, o, ind, s);
            s.push_str(");\n");
        }
        Stmt::Log(e) => {
            s.push_str("log(");
            emit_expr(e, o, ind, s);
            s.push_str(");\n");
        }
    }
}
pub fn emit_program(p: &Program, o: &EmitOpts) -> String {
    let mut s = String::from("script;\n\n");
    for (i, d) in p.structs.iter().enumerate() {
        let _ = write!(s, "struct S{i} {{ ");
        for (k, t) in d.fields.iter().enumerate() {
            let _ = write!(s, "f{k}: {}, ", ty_str(t));
        }
        s.push_str("}\n");
    }
    for (i, d) in p.enums.iter().enumerate() {
        let _ = write!(s, "enum E{i} {{ ");
        for (k, t) in d.variants.iter().enumerate() {
            let _ = write!(s, "V{k}: {}, ", ty_str(t));
        }
        s.push_str("}\n");
    }
    s.push('\n');
    let last = p.fns.len() - 1;
    for (i, f) in p.fns.iter().enumerate() {
        match f.inline {
            1 => s.push_str("#[inline(never)]\n"),
            2 => s.push_str("#[inline(always)]\n"),
            _ => {}
        }
        if i == last {
            s.push_str("fn main(");
        } else {
            let _ = write!(s, "fn f{i}(");
        }
        for (k, (n, t)) in f.params.iter().enumerate() {
            if k > 0 {
                s.push_str(", ");
            }
            let _ = write!(s, "{n}: {}", ty_str(t));
        }
        let _ = write!(s, ") -> {} ", ty_str(&f.ret));
        emit_block(&f.body, o, 0, &mut s);
        s.push_str("\n\n");
    }
    s
}

// ------------------------------------------------------------------------------------------------
// reference interpreter

#[derive(Clone, Debug, PartialEq, Eq)]
pub enum Abort {
    Arith,
    Assert,
    Require,
}
enum Flow {
    Break,
    Continue,
    Return(Val),
    Abort(Abort),
}
pub struct RefOutcome {
    pub result: Result<Val, Abort>,
    /// lazy mode: how many arithmetic operations would have aborted in the eager semantics
    pub poisoned_ops: u64,
    pub logs: Vec<Vec<u8>>,
    pub op_kinds: std::collections::BTreeSet<&'static str>,
    pub steps: u64,
}
pub struct Interp<'p> {
    p: &'p Program,
    logs: Vec<Vec<u8>>,
    kinds: std::collections::BTreeSet<&'static str>,
    steps: u64,
    /// lazy mode: aborting arithmetic yields `Val::Poison` and the abort happens only when the poison is observed
    lazy: bool,
    /// lazy mode: number of arithmetic operations that would have aborted in the eager semantics
    pub poisoned_ops: u64,
    /// evaluate the program as `emit_program` prints it with `EmitOpts::no_trap` (operands of + - * / % masked so that the
    /// operation cannot abort)
    no_trap: bool,
}
type Env = Vec<(String, Val)>;
const STEP_LIMIT: u64 = 2_000_000;

fn lookup<'e>(env: &'e Env, n: &str) -> &'e Val {
    &env.iter().rev().find(|(k, _)| k == n).unwrap_or_else(|| panic!("generator bug: unbound {n}")).1
}
fn lookup_mut<'e>(env: &'e mut Env, n: &str) -> &'e mut Val {
    &mut env.iter_mut().rev().find(|(k, _)| k == n).unwrap_or_else(|| panic!("generator bug: unbound {n}")).1
}

impl<'p> Interp<'p> {
    pub fn run(p: &'p Program, args: &[Val]) -> RefOutcome {
        Self::run_mode(p, args, false, false)
    }
    /// reference outcome of the operand-masked emission of the program (`EmitOpts { no_trap: true, .. }`)
    pub fn run_masked(p: &'p Program, args: &[Val]) -> RefOutcome {
        Self::run_mode(p, args, false, true)
    }
    /// The same semantics, except that arithmetic which must abort (overflow, underflow, division by zero) produces a
    /// poison value instead, poison propagates through every operation and aggregate, and the abort (class Arith) happens
    /// when poison is *observed*: as a condition, match scrutinee, divisor, logged value, require value or main's result.
    /// If the eager run aborts in arithmetic and the lazy run gets further, every aborting operation passed on the way was
    /// dead (its result never reached anything observable).
    pub fn run_lazy(p: &'p Program, args: &[Val]) -> RefOutcome {
        Self::run_mode(p, args, true, false)
    }
    fn run_mode(p: &'p Program, args: &[Val], lazy: bool, no_trap: bool) -> RefOutcome {
        let mut it = Interp { p, logs: vec![], kinds: Default::default(), steps: 0, lazy, poisoned_ops: 0, no_trap };
        let main = p.fns.len() - 1;
        let r = it.call(main, args.to_vec());
        let r = match r {
            Ok(v) | Err(Flow::Return(v)) if v.has_poison() => Err(Flow::Abort(Abort::Arith)),
            r => r,
        };
        let result = match r {
            Ok(v) => Ok(v),
            Err(Flow::Abort(a)) => Err(a),
            Err(Flow::Return(v)) => Ok(v),
            Err(_) => panic!("generator bug: break/continue escaped"),
        };
        RefOutcome { result, poisoned_ops: it.poisoned_ops, logs: it.logs, op_kinds: it.kinds, steps: it.steps }
    }
    fn call(&mut self, f: usize, args: Vec<Val>) -> Result<Val, Flow> {
        let d = &self.p.fns[f];
        let mut env: Env = d.params.iter().map(|(n, _)| n.clone()).zip(args).collect();
        self.kinds.insert("call");
        match self.block(&d.body, &mut env) {
            Err(Flow::Return(v)) => Ok(v),
            r => r,
        }
    }
    fn block(&mut self, b: &Block, env: &mut Env) -> Result<Val, Flow> {
        let mark = env.len();
        let r = (|| {
            for s in &b.stmts {
                self.stmt(s, env)?;
            }
            self.expr(&b.result, env)
        })();
        env.truncate(mark);
        r
    }
    fn stmts(&mut self, v: &[Stmt], env: &mut Env) -> Result<(), Flow> {
        let mark = env.len();
        let r = (|| {
            for s in v {
                self.stmt(s, env)?;
            }
            Ok(())
        })();
        env.truncate(mark);
        r
    }
    /// a value that decides control flow or is otherwise observed: poison here means the abort is mandatory
    fn observe(&mut self, v: Val) -> Result<Val, Flow> {
        if v.has_poison() {
            return Err(Flow::Abort(Abort::Arith));
        }
        Ok(v)
    }
    fn tick(&mut self) -> Result<(), Flow> {
        self.steps += 1;
        if self.steps > STEP_LIMIT {
            panic!("generator bug: step limit exceeded");
        }
        Ok(())
    }
    fn stmt(&mut self, s: &Stmt, env: &mut Env) -> Result<(), Flow> {
        self.tick()?;
        match s {
            Stmt::Let { name, init, .. } => {
                let v = self.expr(init, env)?;
                env.push((name.clone(), v));
                self.kinds.insert("let");
            }
            Stmt::Assign { var, path, value } => {
                let v = self.expr(value, env)?;
                // evaluate indices (pure)
                let mut idxs = vec![];
                for p in path {
                    if let PathEl::Index(e, n) = p {
                        let i = self.expr(e, env)?;
                        let i = self.observe(i)?.as_u64() % (*n as u64);
                        idxs.push(i as usize);
                    }
                }
                let mut slot = lookup_mut(env, var);
                let mut k = 0;
                for p in path {
                    slot = match (p, slot) {
                        (PathEl::Field(i), Val::Struct(_, vs)) => &mut vs[*i],
                        (PathEl::Tuple(i), Val::Tuple(vs)) => &mut vs[*i],
                        (PathEl::Index(..), Val::Array(vs)) => {
                            k += 1;
                            &mut vs[idxs[k - 1]]
                        }
                        _ => panic!("generator bug: bad place"),
                    };
                }
                *slot = v;
                self.kinds.insert(if path.is_empty() { "assign" } else { "assign-place" });
            }
            Stmt::While { counter, bound, cond, body } => {
                self.kinds.insert("while");
                env.push((counter.clone(), Val::u64(0)));
                let r = (|| -> Result<(), Flow> {
                    loop {
                        self.tick()?;
                        let c = lookup(env, counter).as_u64();
                        if c >= *bound {
                            break;
                        }
                        if let Some(cond) = cond {
                            let c = self.expr(cond, env)?;
                            if self.observe(c)? != Val::Bool(true) {
                                break;
                            }
                        }
                        *lookup_mut(env, counter) = Val::u64(c + 1);
                        match self.stmts(body, env) {
                            Ok(()) => {}
                            Err(Flow::Break) => {
                                self.kinds.insert("break");
                                break;
                            }
                            Err(Flow::Continue) => {
                                self.kinds.insert("continue");
                                continue;
                            }
                            Err(e) => return Err(e),
                        }
                    }
                    Ok(())
                })();
                // the counter stays in scope (declared before the loop)
                r?;
            }
            Stmt::If { cond, then, els } => {
                self.kinds.insert("if-stmt");
                let c = self.expr(cond, env)?;
                if c.has_poison() && self.pure_stmts(then) && self.pure_stmts(els) {
                    // nothing either arm does can be observed: the condition is not observed either
                    return Ok(());
                }
                if self.observe(c)? == Val::Bool(true) {
                    self.stmts(then, env)?;
                } else {
                    self.stmts(els, env)?;
                }
            }
            Stmt::Break => return Err(Flow::Break),
            Stmt::Continue => return Err(Flow::Continue),
            Stmt::Return(e) => {
                let v = self.expr(e, env)?;
                self.kinds.insert("return");
                return Err(Flow::Return(v));
            }
            Stmt::Assert(e) => {
                self.kinds.insert("assert");
                let c = self.expr(e, env)?;
                if self.observe(c)? != Val::Bool(true) {
                    return Err(Flow::Abort(Abort::Assert));
                }
            }
            Stmt::Require(c, v) => {
                self.kinds.insert("require");
                // require(cond, value): both arguments are evaluated before the call
                let c = self.expr(c, env)?;
                let v = self.expr(v, env)?;
                let c = self.observe(c)?;
                if c != Val::Bool(true) {
                    let v = self.observe(v)?;
                    self.logs.push(v.encoded());
                    return Err(Flow::Abort(Abort::Require));
                }
            }
            Stmt::Log(e) => {
                self.kinds.insert("log");
                let v = self.expr(e, env)?;
                let v = self.observe(v)?;
                self.logs.push(v.encoded());
            }
        }
        Ok(())
    }
    fn expr(&mut self, e: &Expr, env: &mut Env) -> Result<Val, Flow> {
        self.tick()?;
        Ok(match e {
            Expr::Lit(v) => v.clone(),
            Expr::Var(n) => lookup(env, n).clone(),
            Expr::Not(x) => {
                self.kinds.insert("not");
                match self.expr(x, env)? {
                    Val::Bool(b) => Val::Bool(!b),
                    Val::Int(bits, v) => Val::Int(bits, max_of(bits) ^ v),
                    Val::Poison => Val::Poison,
                    _ => panic!("generator bug: not"),
                }
            }
            Expr::Bin(op, _, a, b) => {
                if *op == BinOp::LAnd || *op == BinOp::LOr {
                    self.kinds.insert("short-circuit");
                    let l = self.expr(a, env)?;
                    let l = self.observe(l)? == Val::Bool(true);
                    if (*op == BinOp::LAnd && !l) || (*op == BinOp::LOr && l) {
                        return Ok(Val::Bool(l));
                    }
                    return self.expr(b, env);
                }
                let mut l = self.expr(a, env)?;
                let mut r = self.expr(b, env)?;
                if self.no_trap && matches!(op, BinOp::Add | BinOp::Sub | BinOp::Mul | BinOp::Div | BinOp::Rem) {
                    // the masks emit_expr writes for EmitOpts::no_trap
                    if let (Val::Int(w, x), Val::Int(_, y)) = (&l, &r) {
                        let w = *w;
                        let one = BigUint::one();
                        let half = (&one << (w as usize - 1)) - &one;
                        let high = &one << (w as usize - 1);
                        let sqrt = (&one << (w as usize / 2)) - &one;
                        let (x, y) = match op {
                            BinOp::Add => (x & &half, y & &half),
                            BinOp::Sub => (x | &high, y & &half),
                            BinOp::Mul => (x & &sqrt, y & &sqrt),
                            _ => (x.clone(), y | &one),
                        };
                        l = Val::Int(w, x);
                        r = Val::Int(w, y);
                    }
                }
                self.binop(*op, l, r)?
            }
            Expr::Cast(_, dst, x) => {
                self.kinds.insert("cast");
                match self.expr(x, env)? {
                    Val::Int(_, v) => Val::Int(dst.bits().unwrap(), v),
                    Val::Poison => Val::Poison,
                    _ => panic!("generator bug: cast"),
                }
            }
            Expr::Tuple(xs) => {
                self.kinds.insert("tuple");
                let mut vs = vec![];
                for x in xs {
                    vs.push(self.expr(x, env)?);
                }
                Val::Tuple(vs)
            }
            Expr::TupleGet(x, i) => {
                self.kinds.insert("tuple-get");
                match self.expr(x, env)? {
                    Val::Tuple(vs) => vs[*i].clone(),
                    _ => panic!("generator bug: tuple get"),
                }
            }
            Expr::StructLit(s, xs) => {
                self.kinds.insert("struct");
                let mut vs = vec![];
                for x in xs {
                    vs.push(self.expr(x, env)?);
                }
                Val::Struct(*s, vs)
            }
            Expr::Field(x, i) => {
                self.kinds.insert("field");
                match self.expr(x, env)? {
                    Val::Struct(_, vs) => vs[*i].clone(),
                    _ => panic!("generator bug: field"),
                }
            }
            Expr::EnumLit(en, t, p) => {
                self.kinds.insert("enum");
                Val::Enum(*en, *t, Box::new(self.expr(p, env)?))
            }
            Expr::ArrayLit(xs) => {
                self.kinds.insert("array");
                let mut vs = vec![];
                for x in xs {
                    vs.push(self.expr(x, env)?);
                }
                Val::Array(vs)
            }
            Expr::Index(a, i, n) => {
                self.kinds.insert("index");
                let av = self.expr(a, env)?;
                let iv = self.expr(i, env)?;
                let iv = self.observe(iv)?.as_u64() % (*n as u64);
                match av {
                    Val::Array(vs) => vs[iv as usize].clone(),
                    _ => panic!("generator bug: index"),
                }
            }
            Expr::If(c, t, f) => {
                self.kinds.insert("if-expr");
                let c = self.expr(c, env)?;
                if c.has_poison() && self.pure_block(t) && self.pure_block(f) {
                    return Ok(Val::Poison);
                }
                if self.observe(c)? == Val::Bool(true) {
                    self.block(t, env)?
                } else {
                    self.block(f, env)?
                }
            }
            Expr::MatchEnum(x, _, arms) => {
                self.kinds.insert("match-enum");
                let x = self.expr(x, env)?;
                if x == Val::Poison {
                    return Err(Flow::Abort(Abort::Arith));
                }
                match x {
                    Val::Enum(_, t, p) => {
                        let (binder, b) = &arms[t];
                        let mark = env.len();
                        if !binder.is_empty() {
                            env.push((binder.clone(), *p));
                        }
                        let r = self.block(b, env);
                        env.truncate(mark);
                        r?
                    }
                    _ => panic!("generator bug: match enum"),
                }
            }
            Expr::MatchInt(x, _, arms, def) => {
                self.kinds.insert("match-int");
                let v = self.expr(x, env)?;
                if v.has_poison() && arms.iter().all(|(_, b)| self.pure_block(b)) && self.pure_block(def) {
                    return Ok(Val::Poison);
                }
                let v = self.observe(v)?;
                let k = match &v {
                    Val::Int(_, b) => b.clone(),
                    _ => panic!("generator bug: match int"),
                };
                match arms.iter().find(|(a, _)| BigUint::from(*a) == k) {
                    Some((_, b)) => self.block(b, env)?,
                    None => self.block(def, env)?,
                }
            }
            Expr::Call(f, args) => {
                let mut vs = vec![];
                for a in args {
                    vs.push(self.expr(a, env)?);
                }
                self.call(*f, vs)?
            }
            Expr::Block(b) => self.block(b, env)?,
        })
    }
    /// Syntactic effect-freeness (lazy semantics): evaluating the statements can do nothing observable except abort in
    /// arithmetic. Conservative: loops, assignments, early exits, assert/require/log and calls of functions that are not
    /// themselves effect-free make code impure.
    fn pure_stmts(&self, v: &[Stmt]) -> bool {
        v.iter().all(|s| match s {
            Stmt::Let { init, .. } => self.pure_expr(init),
            Stmt::If { cond, then, els } => self.pure_expr(cond) && self.pure_stmts(then) && self.pure_stmts(els),
            _ => false,
        })
    }
    fn pure_block(&self, b: &Block) -> bool {
        self.pure_stmts(&b.stmts) && self.pure_expr(&b.result)
    }
    fn pure_expr(&self, e: &Expr) -> bool {
        match e {
            Expr::Lit(_) | Expr::Var(_) => true,
            Expr::Not(x) | Expr::Cast(_, _, x) | Expr::TupleGet(x, _) | Expr::Field(x, _) | Expr::EnumLit(_, _, x) => self.pure_expr(x),
            Expr::Bin(_, _, a, b) => self.pure_expr(a) && self.pure_expr(b),
            Expr::Tuple(xs) | Expr::StructLit(_, xs) | Expr::ArrayLit(xs) => xs.iter().all(|x| self.pure_expr(x)),
            Expr::Index(a, i, _) => self.pure_expr(a) && self.pure_expr(i),
            Expr::If(c, t, f) => self.pure_expr(c) && self.pure_block(t) && self.pure_block(f),
            Expr::MatchEnum(x, _, arms) => self.pure_expr(x) && arms.iter().all(|(_, b)| self.pure_block(b)),
            Expr::MatchInt(x, _, arms, def) => self.pure_expr(x) && arms.iter().all(|(_, b)| self.pure_block(b)) && self.pure_block(def),
            Expr::Call(f, args) => args.iter().all(|a| self.pure_expr(a)) && self.pure_block(&self.p.fns[*f].body),
            Expr::Block(b) => self.pure_block(b),
        }
    }
    fn arith_abort(&mut self) -> Result<Val, Flow> {
        if self.lazy {
            self.poisoned_ops += 1;
            Ok(Val::Poison)
        } else {
            Err(Flow::Abort(Abort::Arith))
        }
    }
    fn binop(&mut self, op: BinOp, l: Val, r: Val) -> Result<Val, Flow> {
        if self.lazy {
            if l.has_poison() || r.has_poison() {
                return Ok(Val::Poison);
            }
        }
        Ok(match (op, &l, &r) {
            (BinOp::Eq, _, _) => {
                self.kinds.insert("cmp");
                Val::Bool(l == r)
            }
            (BinOp::Ne, _, _) => {
                self.kinds.insert("cmp");
                Val::Bool(l != r)
            }
            (_, Val::Int(bits, a), Val::Int(_, b)) => {
                let bits = *bits;
                let max = max_of(bits);
                match op {
                    BinOp::Add => {
                        self.kinds.insert("add");
                        let v = a + b;
                        if v > max {
                            return self.arith_abort();
                        }
                        Val::Int(bits, v)
                    }
                    BinOp::Sub => {
                        self.kinds.insert("sub");
                        if b > a {
                            return self.arith_abort();
                        }
                        Val::Int(bits, a - b)
                    }
                    BinOp::Mul => {
                        self.kinds.insert("mul");
                        let v = a * b;
                        if v > max {
                            return self.arith_abort();
                        }
                        Val::Int(bits, v)
                    }
                    BinOp::Div => {
                        self.kinds.insert("div");
                        if b.is_zero() {
                            return self.arith_abort();
                        }
                        Val::Int(bits, a / b)
                    }
                    BinOp::Rem => {
                        self.kinds.insert("rem");
                        if b.is_zero() {
                            return self.arith_abort();
                        }
                        Val::Int(bits, a % b)
                    }
                    BinOp::And => {
                        self.kinds.insert("bitand");
                        Val::Int(bits, a & b)
                    }
                    BinOp::Or => {
                        self.kinds.insert("bitor");
                        Val::Int(bits, a | b)
                    }
                    BinOp::Xor => {
                        self.kinds.insert("bitxor");
                        Val::Int(bits, a ^ b)
                    }
                    BinOp::Shl => {
                        self.kinds.insert("shl");
                        // rhs is a u64, masked to < width by the emitter
                        let sh = (r.as_u64() % bits as u64) as usize;
                        Val::Int(bits, (a << sh) & max)
                    }
                    BinOp::Shr => {
                        self.kinds.insert("shr");
                        let sh = (r.as_u64() % bits as u64) as usize;
                        Val::Int(bits, a >> sh)
                    }
                    BinOp::Lt => {
                        self.kinds.insert("cmp");
                        Val::Bool(a < b)
                    }
                    BinOp::Gt => {
                        self.kinds.insert("cmp");
                        Val::Bool(a > b)
                    }
                    BinOp::Le => {
                        self.kinds.insert("cmp");
                        Val::Bool(a <= b)
                    }
                    BinOp::Ge => {
                        self.kinds.insert("cmp");
                        Val::Bool(a >= b)
                    }
                    _ => panic!("generator bug: binop"),
                }
            }
            _ => panic!("generator bug: binop operands {:?} {:?} {:?}", op, l, r),
        })
    }
}

// ------------------------------------------------------------------------------------------------
// generator

#[derive(Clone, Debug)]
struct VarInfo {
    name: String,
    ty: Ty,
    mutable: bool,
}
pub struct GenOpts {
    pub max_fns: usize,
    pub budget: i32,
    /// force the register-pressure shape knob and make `main` call the pressure function (C08)
    pub force_pressure: bool,
}
impl Default for GenOpts {
    fn default() -> Self {
        GenOpts { max_fns: 6, budget: 260, force_pressure: false }
    }
}
pub struct Gen<'a> {
    t: Tape<'a>,
    structs: Vec<StructDecl>,
    enums: Vec<EnumDecl>,
    fns: Vec<FnDecl>,
    env: Vec<VarInfo>,
    budget: i32,
    uid: usize,
    loop_depth: usize,
    cur_ret: Ty,
    /// inside an expression that must be pure and abort-free (place indices)
    pure_only: bool,
    shape: Vec<&'static str>,
    /// (original, near-duplicate) function pairs
    dups: Vec<(usize, usize)>,
}

const BOUNDARY: [u64; 12] = [0, 1, 2, 3, 7, 8, 15, 16, 255, 256, 65535, 65536];

impl<'a> Gen<'a> {
    pub fn program(tape: &'a [u16], opts: &GenOpts) -> Program {
        let mut g = Gen { t: Tape::new(tape), structs: vec![], enums: vec![], fns: vec![], env: vec![], budget: opts.budget, uid: 0, loop_depth: 0, cur_ret: Ty::U64, pure_only: false, shape: vec![], dups: vec![] };
        // declarations
        let ns = g.t.below(4);
        let ne = g.t.below(3);
        for _ in 0..ns {
            let nf = 1 + g.t.below(4);
            let fields = (0..nf).map(|_| g.gen_type(2)).collect();
            g.structs.push(StructDecl { fields });
        }
        for _ in 0..ne {
            let nv = 1 + g.t.below(4);
            let variants = (0..nv).map(|_| if g.t.chance(30) { Ty::Unit } else { g.gen_type(2) }).collect();
            g.enums.push(EnumDecl { variants });
        }
        // shape knobs
        let knob = g.t.weighted(&[50, 12, 12, 10, 10]);
        let knob = if opts.force_pressure { 2 } else { knob };
        let mut pressure_ix = None;
        let nf = g.t.below(opts.max_fns);
        for _ in 0..nf {
            g.gen_fn(false);
            if g.t.chance(if knob == 1 { 70 } else { 8 }) {
                g.near_duplicate();
            }
        }
        match knob {
            1 => g.shape.push("near-duplicates"),
            2 => {
                g.pressure_fn();
                pressure_ix = Some(g.fns.len() - 1);
                g.shape.push("register-pressure");
            }
            3 => {
                g.chain_fns();
                g.shape.push("call-chain");
            }
            4 => {
                g.shape.push("big-aggregates");
                g.big_aggregate_fn();
            }
            _ => {}
        }
        g.budget = g.budget.max(60);
        g.gen_fn(true);
        // near-duplicate pairs are both called with the same literal arguments and both results logged, so that merging the
        // two functions (function deduplication) is observable
        let dups: Vec<(usize, usize)> = g.dups.iter().take(2).cloned().collect();
        let mut prelude = vec![];
        for (a, b) in dups {
            let ptys: Vec<Ty> = g.fns[a].params.iter().map(|p| p.1.clone()).collect();
            let args: Vec<Expr> = ptys.iter().map(|t| Expr::Lit(g.lit(t))).collect();
            prelude.push(Stmt::Log(Expr::Call(a, args.clone())));
            prelude.push(Stmt::Log(Expr::Call(b, args)));
        }
        if !prelude.is_empty() {
            let main = g.fns.last_mut().unwrap();
            for (i, st) in prelude.into_iter().enumerate() {
                main.body.stmts.insert(i, st);
            }
        }
        if let (true, Some(px)) = (opts.force_pressure, pressure_ix) {
            let main = g.fns.last_mut().unwrap();
            main.body.stmts.insert(0, Stmt::Let { name: "zzp".into(), mutable: false, ty: Ty::U64, init: Expr::Call(px, vec![Expr::Var("a".into()), Expr::Var("b".into())]) });
            main.body.stmts.insert(1, Stmt::Log(Expr::Var("zzp".into())));
        }
        Program { structs: g.structs, enums: g.enums, fns: g.fns, shape: g.shape }
    }

    fn fresh(&mut self, p: &str) -> String {
        self.uid += 1;
        format!("{p}{}", self.uid)
    }

    fn gen_scalar(&mut self) -> Ty {
        match self.t.weighted(&[30, 12, 10, 12, 6, 12, 4]) {
            0 => Ty::U64,
            1 => Ty::U8,
            2 => Ty::U32,
            3 => Ty::U256,
            4 => Ty::U16,
            5 => Ty::Bool,
            _ => Ty::B256,
        }
    }
    fn gen_type(&mut self, depth: usize) -> Ty {
        if depth == 0 {
            return self.gen_scalar();
        }
        match self.t.weighted(&[55, 12, 12, 10, 11]) {
            0 => self.gen_scalar(),
            1 => {
                let n = 2 + self.t.below(2);
                Ty::Tuple((0..n).map(|_| self.gen_type(depth - 1)).collect())
            }
            2 if !self.structs.is_empty() => Ty::Struct(self.t.below(self.structs.len())),
            3 if !self.enums.is_empty() => Ty::Enum(self.t.below(self.enums.len())),
            4 => {
                let n = 1 + self.t.below(4);
                Ty::Array(Box::new(self.gen_type(depth - 1)), n)
            }
            _ => self.gen_scalar(),
        }
    }

    fn lit_int(&mut self, bits: u16) -> Val {
        let max = max_of(bits);
        let v = match self.t.weighted(&[40, 25, 15, 10, 10]) {
            0 => BigUint::from(self.t.below(10) as u64),
            1 => BigUint::from(BOUNDARY[self.t.below(BOUNDARY.len())]),
            2 => &max - BigUint::from(self.t.below(3) as u64),
            3 => (BigUint::one() << self.t.below(bits as usize)) + BigUint::from(self.t.below(2) as u64),
            _ => {
                let mut x = BigUint::zero();
                for _ in 0..(bits / 16).max(1) {
                    x = (x << 16) + BigUint::from(self.t.next());
                }
                x
            }
        };
        Val::Int(bits, v & max)
    }
    fn lit(&mut self, ty: &Ty) -> Val {
        match ty {
            Ty::Bool => Val::Bool(self.t.chance(50)),
            Ty::B256 => {
                let mut b = [0u8; 32];
                match self.t.below(3) {
                    0 => {}
                    1 => b = [0xff; 32],
                    _ => {
                        for i in 0..4 {
                            b[31 - i] = self.t.next() as u8;
                            b[i] = self.t.next() as u8;
                        }
                    }
                }
                Val::B256(b)
            }
            Ty::Unit => Val::Unit,
            Ty::Tuple(ts) => Val::Tuple(ts.iter().map(|t| self.lit(t)).collect()),
            Ty::Struct(i) => {
                let fs = self.structs[*i].fields.clone();
                Val::Struct(*i, fs.iter().map(|t| self.lit(t)).collect())
            }
            Ty::Enum(i) => {
                let vs = self.enums[*i].variants.clone();
                let k = self.t.below(vs.len());
                Val::Enum(*i, k, Box::new(self.lit(&vs[k])))
            }
            Ty::Array(t, n) => Val::Array((0..*n).map(|_| self.lit(t)).collect()),
            t => self.lit_int(t.bits().unwrap()),
        }
    }

    /// all ways to reach a value of type `want` by projecting variables in scope (depth <= 2)
    fn projections(&self, want: &Ty) -> Vec<Expr> {
        let mut out = vec![];
        for v in &self.env {
            self.proj_rec(Expr::Var(v.name.clone()), &v.ty, want, 2, &mut out);
        }
        out
    }
    fn proj_rec(&self, e: Expr, ty: &Ty, want: &Ty, depth: usize, out: &mut Vec<Expr>) {
        if ty == want {
            out.push(e.clone());
        }
        if depth == 0 || out.len() > 24 {
            return;
        }
        match ty {
            Ty::Tuple(ts) => {
                for (i, t) in ts.iter().enumerate() {
                    self.proj_rec(Expr::TupleGet(Box::new(e.clone()), i), t, want, depth - 1, out);
                }
            }
            Ty::Struct(s) => {
                for (i, t) in self.structs[*s].fields.iter().enumerate() {
                    self.proj_rec(Expr::Field(Box::new(e.clone()), i), t, want, depth - 1, out);
                }
            }
            Ty::Array(t, n) => {
                // constant in-range index
                self.proj_rec(Expr::Index(Box::new(e.clone()), Box::new(Expr::Lit(Val::u64((*n as u64).saturating_sub(1)))), *n), t, want, depth - 1, out);
            }
            _ => {}
        }
    }

    fn leaf(&mut self, ty: &Ty) -> Expr {
        let projs = self.projections(ty);
        if !projs.is_empty() && self.t.chance(70) {
            let k = self.t.below(projs.len());
            return projs[k].clone();
        }
        Expr::Lit(self.lit(ty))
    }

    pub fn gen_expr(&mut self, ty: &Ty, depth: usize) -> Expr {
        self.budget -= 1;
        if depth == 0 || self.budget <= 0 {
            return self.leaf(ty);
        }
        let d = depth - 1;
        if self.pure_only {
            // only literals, variables and abort-free operators
            return match ty {
                t if t.is_int() && self.t.chance(40) => {
                    let op = [BinOp::And, BinOp::Or, BinOp::Xor][self.t.below(3)];
                    Expr::Bin(op, t.clone(), Box::new(self.gen_expr(ty, d)), Box::new(self.gen_expr(ty, d)))
                }
                _ => self.leaf(ty),
            };
        }
        // generic alternatives available for every type
        let fn_cands: Vec<usize> = self.fns.iter().enumerate().filter(|(_, f)| f.ret == *ty).map(|(i, _)| i).collect();
        let has_enum = !self.enums.is_empty();
        let w_generic = [30u32, 10, if fn_cands.is_empty() { 0 } else { 14 }, if has_enum { 6 } else { 0 }, 5, 4];
        let w_specific = 45u32;
        let pick = self.t.weighted(&[w_specific, w_generic[0], w_generic[1], w_generic[2], w_generic[3], w_generic[4], w_generic[5]]);
        match pick {
            0 => self.gen_specific(ty, d),
            1 => self.leaf(ty),
            2 => {
                let c = self.gen_expr(&Ty::Bool, d);
                let a = self.gen_block(ty, d);
                let b = self.gen_block(ty, d);
                Expr::If(Box::new(c), Box::new(a), Box::new(b))
            }
            3 => {
                let f = fn_cands[self.t.below(fn_cands.len())];
                let ptys: Vec<Ty> = self.fns[f].params.iter().map(|p| p.1.clone()).collect();
                let args = ptys.iter().map(|t| self.gen_expr(t, d.min(2))).collect();
                Expr::Call(f, args)
            }
            4 => {
                let en = self.t.below(self.enums.len());
                let scrut = self.gen_expr(&Ty::Enum(en), d.min(2));
                let vs = self.enums[en].variants.clone();
                let mut arms = vec![];
                for vt in &vs {
                    let binder = if *vt == Ty::Unit { String::new() } else { self.fresh("m") };
                    let mark = self.env.len();
                    if !binder.is_empty() {
                        self.env.push(VarInfo { name: binder.clone(), ty: vt.clone(), mutable: false });
                    }
                    let b = self.gen_block(ty, d);
                    self.env.truncate(mark);
                    arms.push((binder, b));
                }
                Expr::MatchEnum(Box::new(scrut), en, arms)
            }
            5 => {
                let it = [Ty::U64, Ty::U8, Ty::U32][self.t.below(3)].clone();
                let scrut = self.gen_expr(&it, d.min(2));
                let n = 1 + self.t.below(3);
                let mut arms: Vec<(u64, Block)> = vec![];
                for _ in 0..n {
                    let k = self.t.below(6) as u64;
                    if arms.iter().any(|(a, _)| *a == k) {
                        continue;
                    }
                    let b = self.gen_block(ty, d);
                    arms.push((k, b));
                }
                let def = self.gen_block(ty, d);
                Expr::MatchInt(Box::new(scrut), it, arms, Box::new(def))
            }
            _ => Expr::Block(Box::new(self.gen_block(ty, d))),
        }
    }

    fn gen_specific(&mut self, ty: &Ty, d: usize) -> Expr {
        match ty {
            Ty::Bool => match self.t.weighted(&[50, 20, 15, 15]) {
                0 => {
                    // comparison
                    let ot = if self.t.chance(85) { INT_TYS[self.t.below(5)].clone() } else if self.t.chance(50) { Ty::Bool } else { Ty::B256 };
                    let op = if ot.is_int() { CMP[self.t.below(6)] } else { CMP[self.t.below(2)] };
                    Expr::Bin(op, ot.clone(), Box::new(self.gen_expr(&ot, d)), Box::new(self.gen_expr(&ot, d)))
                }
                1 => {
                    let op = if self.t.chance(50) { BinOp::LAnd } else { BinOp::LOr };
                    Expr::Bin(op, Ty::Bool, Box::new(self.gen_expr(&Ty::Bool, d)), Box::new(self.gen_expr(&Ty::Bool, d)))
                }
                2 => Expr::Not(Box::new(self.gen_expr(&Ty::Bool, d))),
                _ => self.leaf(ty),
            },
            t if t.is_int() => {
                let bits = t.bits().unwrap();
                match self.t.weighted(&[60, 10, 8, 12, 10]) {
                    0 => {
                        let op = ARITH[self.t.weighted(&[22, 16, 12, 8, 8, 12, 10, 12])];
                        Expr::Bin(op, t.clone(), Box::new(self.gen_expr(ty, d)), Box::new(self.gen_expr(ty, d)))
                    }
                    1 => {
                        let op = if self.t.chance(50) { BinOp::Shl } else { BinOp::Shr };
                        Expr::Bin(op, t.clone(), Box::new(self.gen_expr(ty, d)), Box::new(self.gen_expr(&Ty::U64, d.min(1))))
                    }
                    2 => Expr::Not(Box::new(self.gen_expr(ty, d))),
                    3 if bits > 8 => {
                        // widening cast from a narrower type
                        let srcs: Vec<Ty> = [Ty::U8, Ty::U16, Ty::U32, Ty::U64].into_iter().filter(|s| s.bits().unwrap() < bits).collect();
                        let src = srcs[self.t.below(srcs.len())].clone();
                        Expr::Cast(src.clone(), t.clone(), Box::new(self.gen_expr(&src, d)))
                    }
                    _ => self.leaf(ty),
                }
            }
            Ty::Tuple(ts) => Expr::Tuple(ts.iter().map(|t| self.gen_expr(t, d)).collect()),
            Ty::Struct(s) => {
                let fs = self.structs[*s].fields.clone();
                Expr::StructLit(*s, fs.iter().map(|t| self.gen_expr(t, d)).collect())
            }
            Ty::Enum(en) => {
                let vs = self.enums[*en].variants.clone();
                let k = self.t.below(vs.len());
                let payload = if vs[k] == Ty::Unit { Expr::Lit(Val::Unit) } else { self.gen_expr(&vs[k], d) };
                Expr::EnumLit(*en, k, Box::new(payload))
            }
            Ty::Array(t, n) => Expr::ArrayLit((0..*n).map(|_| self.gen_expr(t, d)).collect()),
            _ => self.leaf(ty),
        }
    }

    fn gen_block(&mut self, ty: &Ty, depth: usize) -> Block {
        let mark = self.env.len();
        let n = if depth == 0 || self.budget < 20 { 0 } else { self.t.weighted(&[60, 25, 15]) };
        let mut stmts = vec![];
        for _ in 0..n {
            self.gen_stmt(depth.min(2), &mut stmts);
        }
        let result = self.gen_expr(ty, depth);
        self.env.truncate(mark);
        Block { stmts, result }
    }

    /// places assignable in scope: (var, path, type)
    fn places(&mut self) -> Vec<(String, Vec<PathEl>, Ty)> {
        let mut out = vec![];
        let vars: Vec<VarInfo> = self.env.iter().filter(|v| v.mutable).cloned().collect();
        for v in vars {
            out.push((v.name.clone(), vec![], v.ty.clone()));
            self.place_rec(&v.name, vec![], &v.ty, 2, &mut out);
        }
        out
    }
    fn place_rec(&mut self, var: &str, path: Vec<PathEl>, ty: &Ty, depth: usize, out: &mut Vec<(String, Vec<PathEl>, Ty)>) {
        if depth == 0 || out.len() > 30 {
            return;
        }
        match ty.clone() {
            Ty::Tuple(ts) => {
                for (i, t) in ts.iter().enumerate() {
                    let mut p = path.clone();
                    p.push(PathEl::Tuple(i));
                    out.push((var.to_string(), p.clone(), t.clone()));
                    self.place_rec(var, p, t, depth - 1, out);
                }
            }
            Ty::Struct(s) => {
                for (i, t) in self.structs[s].fields.clone().iter().enumerate() {
                    let mut p = path.clone();
                    p.push(PathEl::Field(i));
                    out.push((var.to_string(), p.clone(), t.clone()));
                    self.place_rec(var, p, t, depth - 1, out);
                }
            }
            Ty::Array(t, n) => {
                let mut p = path.clone();
                let was = self.pure_only;
                self.pure_only = true;
                let ix = self.gen_expr(&Ty::U64, 1);
                self.pure_only = was;
                p.push(PathEl::Index(ix, n));
                out.push((var.to_string(), p.clone(), (*t).clone()));
                self.place_rec(var, p, &t, depth - 1, out);
            }
            _ => {}
        }
    }

    fn gen_stmt(&mut self, depth: usize, out: &mut Vec<Stmt>) {
        self.budget -= 1;
        let in_loop = self.loop_depth > 0;
        let can_loop = self.loop_depth < 2 && self.budget > 30;
        let w = [34u32, 16, if can_loop { 9 } else { 0 }, 10, if in_loop { 4 } else { 0 }, 5, 5, 5, 10];
        match self.t.weighted(&w) {
            0 => {
                let ty = self.gen_type(2);
                let init = self.gen_expr(&ty, depth + 1);
                let name = self.fresh("v");
                let mutable = self.t.chance(50);
                self.env.push(VarInfo { name: name.clone(), ty: ty.clone(), mutable });
                out.push(Stmt::Let { name, mutable, ty, init });
            }
            1 => {
                let places = self.places();
                if places.is_empty() {
                    return;
                }
                let (var, path, ty) = places[self.t.below(places.len())].clone();
                let value = if ty.is_int() && self.t.chance(40) {
                    // compound-assignment shape: x = x op e
                    let cur = place_expr(&var, &path);
                    let op = ARITH[self.t.weighted(&[25, 15, 10, 5, 5, 15, 10, 15])];
                    Expr::Bin(op, ty.clone(), Box::new(cur), Box::new(self.gen_expr(&ty, depth)))
                } else {
                    self.gen_expr(&ty, depth + 1)
                };
                out.push(Stmt::Assign { var, path, value });
            }
            2 => {
                let counter = self.fresh("i");
                let bound = 1 + self.t.below(5) as u64;
                let cond = if self.t.chance(30) { Some(self.gen_expr(&Ty::Bool, depth)) } else { None };
                self.env.push(VarInfo { name: counter.clone(), ty: Ty::U64, mutable: false });
                let mark = self.env.len();
                self.loop_depth += 1;
                let n = 1 + self.t.below(3);
                let mut body = vec![];
                for _ in 0..n {
                    self.gen_stmt(depth, &mut body);
                }
                self.loop_depth -= 1;
                self.env.truncate(mark);
                out.push(Stmt::While { counter, bound, cond, body });
            }
            3 => {
                let cond = self.gen_expr(&Ty::Bool, depth + 1);
                let mark = self.env.len();
                let mut then = vec![];
                let mut els = vec![];
                for _ in 0..1 + self.t.below(2) {
                    self.gen_stmt(depth, &mut then);
                }
                self.env.truncate(mark);
                if self.t.chance(40) {
                    self.gen_stmt(depth, &mut els);
                }
                self.env.truncate(mark);
                out.push(Stmt::If { cond, then, els });
            }
            4 => {
                let cond = self.gen_expr(&Ty::Bool, depth);
                let brk = if self.t.chance(50) { Stmt::Break } else { Stmt::Continue };
                out.push(Stmt::If { cond, then: vec![brk], els: vec![] });
            }
            5 => {
                let cond = self.gen_expr(&Ty::Bool, depth);
                let rt = self.cur_ret.clone();
                let v = self.gen_expr(&rt, depth);
                out.push(Stmt::If { cond, then: vec![Stmt::Return(v)], els: vec![] });
            }
            6 => {
                // mostly-true assertion
                let c = self.gen_expr(&Ty::Bool, depth + 1);
                let c = if self.t.chance(70) { Expr::Bin(BinOp::LOr, Ty::Bool, Box::new(c), Box::new(Expr::Lit(Val::Bool(self.t.chance(85))))) } else { c };
                out.push(Stmt::Assert(c));
            }
            7 => {
                let c = self.gen_expr(&Ty::Bool, depth + 1);
                let c = if self.t.chance(70) { Expr::Bin(BinOp::LOr, Ty::Bool, Box::new(c), Box::new(Expr::Lit(Val::Bool(self.t.chance(85))))) } else { c };
                let ty = self.gen_type(1);
                let v = self.gen_expr(&ty, depth);
                out.push(Stmt::Require(c, v));
            }
            _ => {
                let ty = self.gen_type(2);
                let v = self.gen_expr(&ty, depth + 1);
                out.push(Stmt::Log(v));
            }
        }
    }

    fn gen_fn(&mut self, is_main: bool) {
        self.env.clear();
        let params: Vec<(String, Ty)> = if is_main {
            MAIN_PARAMS.iter().map(|(n, t)| (n.to_string(), t.clone())).collect()
        } else {
            let n = self.t.below(4);
            (0..n).map(|k| (format!("p{k}"), self.gen_type(2))).collect()
        };
        for (n, t) in &params {
            self.env.push(VarInfo { name: n.clone(), ty: t.clone(), mutable: false });
        }
        let ret = self.gen_type(2);
        self.cur_ret = ret.clone();
        let nst = if is_main { 2 + self.t.below(7) } else { self.t.below(5) };
        let mut stmts = vec![];
        for _ in 0..nst {
            self.gen_stmt(3, &mut stmts);
        }
        // observability: a wrong value of a mutable variable must be able to reach a log (otherwise a miscompiled
        // read-after-write stays invisible to every differential / reference check); at most three per function
        let observed: Vec<String> = self.env.iter().rev().filter(|v| v.mutable).take(3).map(|v| v.name.clone()).collect();
        for name in observed.into_iter().rev() {
            stmts.push(Stmt::Log(Expr::Var(name)));
        }
        let result = self.gen_expr(&ret, 4);
        let inline = if is_main { 0 } else { self.t.weighted(&[60, 25, 15]) as u8 };
        self.env.clear();
        self.fns.push(FnDecl { params, ret, body: Block { stmts, result }, inline });
    }

    /// copy the last function with one literal / operator changed (targets function deduplication)
    fn near_duplicate(&mut self) {
        let Some(orig) = self.fns.last().cloned() else { return };
        let mut f = orig;
        let which = self.t.next() as usize;
        let mut n = 0usize;
        let total = count_mut_sites_block(&f.body);
        if total == 0 {
            return;
        }
        let target = which % total;
        mutate_block(&mut f.body, target, &mut n);
        f.inline = 1;
        self.fns.push(f);
        self.dups.push((self.fns.len() - 2, self.fns.len() - 1));
    }

    /// many simultaneously live u64 values, combined at the end (targets spilling)
    fn pressure_fn(&mut self) {
        let n = 40 + self.t.below(40);
        let mut stmts = vec![];
        let p = |k: usize| Expr::Var(format!("p{}", k % 2));
        for i in 0..n {
            let op = [BinOp::Xor, BinOp::Add, BinOp::Or, BinOp::And][self.t.below(4)];
            let lhs = if i > 1 && self.t.chance(40) { Expr::Var(format!("q{}", self.t.below(i))) } else { p(i) };
            let lhs = if op == BinOp::Add { Expr::Bin(BinOp::And, Ty::U64, Box::new(lhs), Box::new(Expr::Lit(Val::u64(0xffff)))) } else { lhs };
            let init = Expr::Bin(op, Ty::U64, Box::new(lhs), Box::new(Expr::Lit(Val::u64(1 + i as u64 * 7))));
            stmts.push(Stmt::Let { name: format!("q{i}"), mutable: false, ty: Ty::U64, init });
        }
        // optional call in the middle keeps values live across a call
        if !self.fns.is_empty() && self.t.chance(60) {
            let f = self.t.below(self.fns.len());
            let ptys: Vec<Ty> = self.fns[f].params.iter().map(|p| p.1.clone()).collect();
            self.env.clear();
            let args: Vec<Expr> = ptys.iter().map(|t| Expr::Lit(self.lit(t))).collect();
            let rt = self.fns[f].ret.clone();
            stmts.push(Stmt::Let { name: "qcall".into(), mutable: false, ty: rt, init: Expr::Call(f, args) });
        }
        let mut acc = Expr::Var("q0".into());
        for i in 1..n {
            let op = if i % 3 == 0 { BinOp::Xor } else if i % 3 == 1 { BinOp::Or } else { BinOp::Xor };
            acc = Expr::Bin(op, Ty::U64, Box::new(acc), Box::new(Expr::Var(format!("q{i}"))));
        }
        self.fns.push(FnDecl { params: vec![("p0".into(), Ty::U64), ("p1".into(), Ty::U64)], ret: Ty::U64, body: Block { stmts, result: acc }, inline: 1 });
    }

    fn chain_fns(&mut self) {
        let n = 3 + self.t.below(5);
        for k in 0..n {
            let prev = self.fns.len().checked_sub(1).filter(|_| k > 0);
            let body = match prev {
                Some(pf) => {
                    let call = Expr::Call(pf, vec![Expr::Bin(BinOp::Xor, Ty::U64, Box::new(Expr::Var("p0".into())), Box::new(Expr::Lit(Val::u64(k as u64))))]);
                    Expr::Bin(BinOp::Add, Ty::U64, Box::new(Expr::Bin(BinOp::And, Ty::U64, Box::new(call), Box::new(Expr::Lit(Val::u64(0xffff_ffff))))), Box::new(Expr::Lit(Val::u64(k as u64 + 1))))
                }
                None => Expr::Bin(BinOp::Rem, Ty::U64, Box::new(Expr::Var("p0".into())), Box::new(Expr::Lit(Val::u64(1000)))),
            };
            let inline = self.t.weighted(&[40, 30, 30]) as u8;
            self.fns.push(FnDecl { params: vec![("p0".into(), Ty::U64)], ret: Ty::U64, body: Block { stmts: vec![], result: body }, inline });
        }
    }

    fn big_aggregate_fn(&mut self) {
        // a struct-of-arrays style value passed by value, modified and returned
        let elem = if self.structs.is_empty() { Ty::Tuple(vec![Ty::U64, Ty::U8, Ty::U256]) } else { Ty::Struct(self.t.below(self.structs.len())) };
        let n = 3 + self.t.below(4);
        let arr = Ty::Array(Box::new(elem.clone()), n);
        self.env.clear();
        self.env.push(VarInfo { name: "p0".into(), ty: arr.clone(), mutable: false });
        self.env.push(VarInfo { name: "p1".into(), ty: Ty::U64, mutable: false });
        let mut stmts = vec![Stmt::Let { name: "w".into(), mutable: true, ty: arr.clone(), init: Expr::Var("p0".into()) }];
        self.env.push(VarInfo { name: "w".into(), ty: arr.clone(), mutable: true });
        let v = self.gen_expr(&elem, 2);
        stmts.push(Stmt::Assign { var: "w".into(), path: vec![PathEl::Index(Expr::Var("p1".into()), n)], value: v });
        self.env.clear();
        self.fns.push(FnDecl { params: vec![("p0".into(), arr.clone()), ("p1".into(), Ty::U64)], ret: arr, body: Block { stmts, result: Expr::Var("w".into()) }, inline: 1 });
    }
}

fn place_expr(var: &str, path: &[PathEl]) -> Expr {
    let mut e = Expr::Var(var.to_string());
    for p in path {
        e = match p {
            PathEl::Field(i) => Expr::Field(Box::new(e), *i),
            PathEl::Tuple(i) => Expr::TupleGet(Box::new(e), *i),
            PathEl::Index(ix, n) => Expr::Index(Box::new(e), Box::new(ix.clone()), *n),
        };
    }
    e
}

// --- near-duplicate mutation: change the k-th literal or arithmetic/comparison operator
fn count_mut_sites_block(b: &Block) -> usize {
    let mut n = 0;
    let mut bb = b.clone();
    mutate_block(&mut bb, usize::MAX, &mut n);
    n
}
fn mutate_block(b: &mut Block, target: usize, n: &mut usize) {
    for s in &mut b.stmts {
        mutate_stmt(s, target, n);
    }
    mutate_expr(&mut b.result, target, n);
}
fn mutate_stmt(s: &mut Stmt, target: usize, n: &mut usize) {
    match s {
        Stmt::Let { init, .. } => mutate_expr(init, target, n),
        Stmt::Assign { value, .. } => mutate_expr(value, target, n),
        Stmt::While { cond, body, .. } => {
            if let Some(c) = cond {
                mutate_expr(c, target, n);
            }
            for b in body {
                mutate_stmt(b, target, n);
            }
        }
        Stmt::If { cond, then, els } => {
            mutate_expr(cond, target, n);
            for b in then.iter_mut().chain(els.iter_mut()) {
                mutate_stmt(b, target, n);
            }
        }
        Stmt::Return(e) | Stmt::Assert(e) | Stmt::Log(e) => mutate_expr(e, target, n),
        Stmt::Require(c, v) => {
            mutate_expr(c, target, n);
            mutate_expr(v, target, n);
        }
        Stmt::Break | Stmt::Continue => {}
    }
}
fn mutate_expr(e: &mut Expr, target: usize, n: &mut usize) {
    match e {
        Expr::Lit(Val::Int(bits, v)) => {
            if *n == target {
                let max = max_of(*bits);
                *v = if *v == max { v.clone() - BigUint::one() } else { v.clone() + BigUint::one() };
            }
            *n += 1;
        }
        Expr::Lit(Val::Bool(b)) => {
            if *n == target {
                *b = !*b;
            }
            *n += 1;
        }
        Expr::Lit(_) | Expr::Var(_) => {}
        Expr::Not(x) | Expr::Cast(_, _, x) | Expr::TupleGet(x, _) | Expr::Field(x, _) | Expr::EnumLit(_, _, x) => mutate_expr(x, target, n),
        Expr::Bin(op, _, a, b) => {
            if *n == target {
                *op = match *op {
                    BinOp::Add => BinOp::Sub,
                    BinOp::Sub => BinOp::Add,
                    BinOp::Mul => BinOp::Add,
                    BinOp::Div => BinOp::Rem,
                    BinOp::Rem => BinOp::Div,
                    BinOp::And => BinOp::Or,
                    BinOp::Or => BinOp::Xor,
                    BinOp::Xor => BinOp::And,
                    BinOp::Shl => BinOp::Shr,
                    BinOp::Shr => BinOp::Shl,
                    BinOp::Eq => BinOp::Ne,
                    BinOp::Ne => BinOp::Eq,
                    BinOp::Lt => BinOp::Le,
                    BinOp::Le => BinOp::Lt,
                    BinOp::Gt => BinOp::Ge,
                    BinOp::Ge => BinOp::Gt,
                    BinOp::LAnd => BinOp::LOr,
                    BinOp::LOr => BinOp::LAnd,
                };
            }
            *n += 1;
            mutate_expr(a, target, n);
            mutate_expr(b, target, n);
        }
        Expr::Tuple(xs) | Expr::StructLit(_, xs) | Expr::ArrayLit(xs) | Expr::Call(_, xs) => xs.iter_mut().for_each(|x| mutate_expr(x, target, n)),
        Expr::Index(a, i, _) => {
            mutate_expr(a, target, n);
            mutate_expr(i, target, n);
        }
        Expr::If(c, t, f) => {
            mutate_expr(c, target, n);
            mutate_block(t, target, n);
            mutate_block(f, target, n);
        }
        Expr::MatchEnum(x, _, arms) => {
            mutate_expr(x, target, n);
            arms.iter_mut().for_each(|(_, b)| mutate_block(b, target, n));
        }
        Expr::MatchInt(x, _, arms, def) => {
            mutate_expr(x, target, n);
            arms.iter_mut().for_each(|(_, b)| mutate_block(b, target, n));
            mutate_block(def, target, n);
        }
        Expr::Block(b) => mutate_block(b, target, n),
    }
}

// ------------------------------------------------------------------------------------------------
// inputs

/// 8 boundary-biased argument tuples for main(a: u64, b: u64, c: u8, d: u256, e: bool, f: u32), derived from a seed
pub fn input_sets(seed: u64) -> Vec<Vec<Val>> {
    let mut x = seed | 1;
    let mut rnd = move || {
        x ^= x << 13;
        x ^= x >> 7;
        x ^= x << 17;
        x
    };
    let mut out = vec![];
    let u = |v: u64| Val::u64(v);
    let big = |hi: u64, lo: u64| Val::Int(256, (BigUint::from(hi) << 192) + BigUint::from(lo));
    out.push(vec![u(3), u(2), Val::int(8, 5), big(0, 9), Val::Bool(true), Val::int(32, 7)]);
    out.push(vec![u(0), u(0), Val::int(8, 0), big(0, 0), Val::Bool(false), Val::int(32, 0)]);
    out.push(vec![u(u64::MAX), u(u64::MAX - 1), Val::int(8, 255), Val::Int(256, max_of(256)), Val::Bool(true), Val::int(32, u32::MAX as u64)]);
    out.push(vec![u(1), u(255), Val::int(8, 1), big(1, 1), Val::Bool(false), Val::int(32, 65536)]);
    for _ in 0..4 {
        let small = |r: u64| match r % 4 {
            0 => r >> 60,
            1 => BOUNDARY[(r >> 8) as usize % BOUNDARY.len()],
            2 => (r >> 32) & 0xffff,
            _ => r,
        };
        let (r1, r2, r3, r4, r5, r6) = (rnd(), rnd(), rnd(), rnd(), rnd(), rnd());
        out.push(vec![u(small(r1)), u(small(r2)), Val::int(8, small(r3) & 0xff), big(if r4 % 3 == 0 { r4 } else { 0 }, small(r4 >> 3)), Val::Bool(r5 & 1 == 1), Val::int(32, small(r6) & 0xffff_ffff)]);
    }
    out
}
pub fn encode_args(args: &[Val]) -> Vec<u8> {
    let mut v = vec![];
    for a in args {
        a.encode(&mut v);
    }
    v
}

/// Size metric used in evidence
pub fn program_stats(p: &Program) -> BTreeMap<&'static str, usize> {
    let mut m = BTreeMap::new();
    m.insert("fns", p.fns.len());
    m.insert("structs", p.structs.len());
    m.insert("enums", p.enums.len());
    m
}

// ------------------------------------------------------------------------------------------------
// type-checking cost estimate

/// The compiler type checks the operands of an operator / method application more than once (each `a + b` is the method
/// call `a.add(b)`), so checking time grows exponentially with the nesting depth of operator expressions. This estimate
/// (operator node = 1 + 2 x cost of its operands; the operand masks of the no-trap emission add one level each) lets the
/// checks skip the rare generated programs that would take minutes to type check (counted as `generator:too-costly`).
pub fn typecheck_cost(p: &Program, no_trap: bool) -> u64 {
    fn ex(e: &Expr, nt: bool) -> u64 {
        let sat = |a: u64, b: u64| a.saturating_add(b);
        match e {
            Expr::Lit(_) | Expr::Var(_) => 1,
            Expr::Not(x) | Expr::Cast(_, _, x) => sat(1, ex(x, nt).saturating_mul(2)),
            Expr::Bin(op, ty, a, b) => {
                let masked = nt && ty.is_int() && matches!(op, BinOp::Add | BinOp::Sub | BinOp::Mul | BinOp::Div | BinOp::Rem);
                let (ca, cb) = (ex(a, nt), ex(b, nt));
                let (ca, cb) = if masked { (sat(1, ca.saturating_mul(2)), sat(1, cb.saturating_mul(2))) } else { (ca, cb) };
                if matches!(op, BinOp::LAnd | BinOp::LOr) {
                    sat(1, sat(ca, cb))
                } else {
                    sat(1, sat(ca, cb).saturating_mul(2))
                }
            }
            Expr::Tuple(xs) | Expr::StructLit(_, xs) | Expr::ArrayLit(xs) => xs.iter().fold(1, |a, x| sat(a, ex(x, nt))),
            Expr::TupleGet(x, _) | Expr::Field(x, _) | Expr::EnumLit(_, _, x) => sat(1, ex(x, nt)),
            Expr::Index(a, i, _) => sat(1, sat(ex(a, nt), ex(i, nt).saturating_mul(2))),
            Expr::If(c, t, f) => sat(ex(c, nt), sat(bl(t, nt), bl(f, nt))),
            Expr::MatchEnum(x, _, arms) => arms.iter().fold(ex(x, nt), |a, (_, b)| sat(a, bl(b, nt))),
            Expr::MatchInt(x, _, arms, d) => arms.iter().fold(sat(ex(x, nt), bl(d, nt)), |a, (_, b)| sat(a, bl(b, nt))),
            Expr::Call(_, args) => args.iter().fold(1, |a, x| sat(a, ex(x, nt).saturating_mul(2))),
            Expr::Block(b) => bl(b, nt),
        }
    }
    fn bl(b: &Block, nt: bool) -> u64 {
        b.stmts.iter().fold(ex(&b.result, nt), |a, s| a.max(st(s, nt)))
    }
    fn st(s: &Stmt, nt: bool) -> u64 {
        match s {
            Stmt::Let { init, .. } => ex(init, nt),
            Stmt::Assign { value, path, .. } => path.iter().fold(ex(value, nt), |a, p| if let PathEl::Index(e, _) = p { a.max(ex(e, nt)) } else { a }),
            Stmt::While { cond, body, .. } => body.iter().fold(cond.as_ref().map(|c| ex(c, nt)).unwrap_or(1), |a, s| a.max(st(s, nt))),
            Stmt::If { cond, then, els } => then.iter().chain(els.iter()).fold(ex(cond, nt), |a, s| a.max(st(s, nt))),
            Stmt::Return(e) | Stmt::Assert(e) | Stmt::Log(e) => ex(e, nt),
            Stmt::Require(c, v) => ex(c, nt).max(ex(v, nt)),
            Stmt::Break | Stmt::Continue => 1,
        }
    }
    // the maximum over all expression trees (cost is dominated by the single deepest tree)
    p.fns.iter().map(|f| bl(&f.body, no_trap)).max().unwrap_or(1)
}
