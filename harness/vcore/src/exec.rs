//! E-EXEC: run script bytecode on the FuelVM in process and reduce the result to the observable outcome.
use fuel_tx::{ConsensusParameters, Receipt, ScriptParameters, TransactionBuilder, TxParameters};
use fuel_vm::fuel_crypto::SecretKey;
use fuel_vm::prelude::*;
use rand::{rngs::StdRng, Rng, SeedableRng};
use serde_json::{json, Value};

#[derive(Clone, Debug, PartialEq, Eq)]
pub enum End {
    Return(u64),
    ReturnData(Vec<u8>),
    Revert(u64),
    Panic(String),
    /// no terminating receipt found / VM error before execution
    Other(String),
}
#[derive(Clone, Debug, PartialEq, Eq)]
pub enum Log {
    Log { ra: u64, rb: u64 },
    LogData { rb: u64, data: Vec<u8> },
}
#[derive(Clone, Debug, PartialEq, Eq)]
pub struct Outcome {
    pub end: End,
    pub logs: Vec<Log>,
}
impl Outcome {
    pub fn to_json(&self) -> Value {
        json!({
            "end": match &self.end {
                End::Return(v) => format!("Return({v})"),
                End::ReturnData(d) => format!("ReturnData({})", hex::encode(d)),
                End::Revert(c) => format!("Revert({c:#x})"),
                End::Panic(r) => format!("Panic({r})"),
                End::Other(s) => format!("Other({s})"),
            },
            "logs": self.logs.iter().map(|l| match l {
                Log::Log { ra, rb } => format!("Log({ra},{rb})"),
                Log::LogData { rb, data } => format!("LogData(rb={rb},{})", hex::encode(data)),
            }).collect::<Vec<_>>()
        })
    }
    /// abort class used when comparing against the reference semantics
    pub fn is_abort(&self) -> bool {
        matches!(self.end, End::Revert(_) | End::Panic(_))
    }
    /// Same observable behaviour modulo log ids (rb of LogData is a compiler-assigned id that may
    /// legitimately differ between two builds only if the ABI differs; we keep it).
    pub fn same_as(&self, o: &Outcome) -> bool {
        self == o
    }
}

pub fn outcome_from_receipts(receipts: &[Receipt]) -> Outcome {
    let mut logs = vec![];
    let mut end = End::Other("no terminating receipt".into());
    for r in receipts {
        match r {
            Receipt::Log { ra, rb, .. } => logs.push(Log::Log { ra: *ra, rb: *rb }),
            Receipt::LogData { rb, data, .. } => logs.push(Log::LogData { rb: *rb, data: data.clone().map(|d| d.to_vec()).unwrap_or_default() }),
            Receipt::Return { val, .. } => end = End::Return(*val),
            Receipt::ReturnData { data, .. } => end = End::ReturnData(data.clone().map(|d| d.to_vec()).unwrap_or_default()),
            Receipt::Revert { ra, .. } => end = End::Revert(*ra),
            Receipt::Panic { reason, .. } => end = End::Panic(format!("{:?}", reason.reason())),
            _ => {}
        }
    }
    Outcome { end, logs }
}

/// Execute a script. Mirrors test/src/e2e_vm_tests/harness.rs::runs_in_vm.
pub fn run_script(bytecode: &[u8], script_data: &[u8]) -> Outcome {
    let storage = MemoryStorage::default();
    let rng = &mut StdRng::seed_from_u64(2322u64);
    let maturity = 1.into();
    let block_height = (u32::MAX >> 1).into();
    let max_size = 64 * 1024 * 1024;
    let script_params = ScriptParameters::DEFAULT.with_max_script_length(max_size).with_max_script_data_length(max_size);
    let tx_params = TxParameters::DEFAULT.with_max_size(max_size);
    let params = ConsensusParameters::V1(fuel_tx::consensus_parameters::ConsensusParametersV1 { script_params, tx_params, ..Default::default() });
    let mut tb = TransactionBuilder::script(bytecode.to_vec(), script_data.to_vec());
    tb.with_params(params).add_unsigned_coin_input(SecretKey::random(rng), rng.gen(), 1, Default::default(), rng.gen()).maturity(maturity);
    let consensus_params = tb.get_params().clone();
    let params = ConsensusParameters::default();
    let tmp_tx = tb.clone().finalize();
    let max_gas = tmp_tx.max_gas(consensus_params.gas_costs(), consensus_params.fee_params()) + 1;
    tb.script_gas_limit(consensus_params.tx_params().max_gas_per_tx() - max_gas);
    let tx = match tb.finalize_checked(block_height).into_ready(0, params.gas_costs(), params.fee_params(), None) {
        Ok(tx) => tx,
        Err(e) => return Outcome { end: End::Other(format!("tx not ready: {e:?}")), logs: vec![] },
    };
    let mut i: Interpreter<_, _, _, fuel_vm::interpreter::NotSupportedEcal> = Interpreter::with_storage(MemoryInstance::new(), storage, Default::default());
    match i.transact(tx) {
        Ok(t) => outcome_from_receipts(t.receipts()),
        Err(e) => Outcome { end: End::Other(format!("vm error: {e:?}")), logs: vec![] },
    }
}
