//! Shared compiler-side engines: in-process compiler with pre-compiled std (fastc), FuelVM executor (exec),
//! typed Sway program generator + reference interpreter (swaygen).
pub mod exec;
pub mod fastc;
pub mod swaygen;
