//! Shared compiler-side engines: in-process compiler with pre-compiled std (fastc), FuelVM executor (exec),
//! typed Sway program generator + reference interpreter (swaygen).
pub mod exec;
pub mod fastc;
pub mod swaygen;

/// glibc malloc grows per-thread arenas with one mprotect per page run, which serialises 16 compiling threads on the
/// process's mmap lock (most of the wall time was system time); jemalloc does not.
#[global_allocator]
static GLOBAL: tikv_jemallocator::Jemalloc = tikv_jemallocator::Jemalloc;
