//! C14 generator: tape (Vec<u16> from proptest) -> scrutinee type + pattern matrix.
use crate::c14model::*;
use vcommon::idx;

pub const MAX_SPACE: u64 = 4096;
pub const MAX_ARMS: usize = 8;

pub struct Tape<'a> {
    t: &'a [u16],
    p: usize,
}
impl<'a> Tape<'a> {
    pub fn new(t: &'a [u16]) -> Self {
        Tape { t, p: 0 }
    }
    pub fn next(&mut self) -> u16 {
        let v = self.t.get(self.p).copied().unwrap_or(0);
        self.p += 1;
        v
    }
    pub fn pick(&mut self, n: usize) -> usize {
        idx(self.next(), n)
    }
    pub fn chance(&mut self, pct: u32) -> bool {
        ((self.next() as u32 * 100) >> 16) < pct
    }
}

const U8_POINTS: [u8; 14] = [0, 1, 2, 3, 4, 5, 7, 100, 127, 128, 250, 253, 254, 255];

struct G<'a, 'b> {
    t: &'b mut Tape<'a>,
    d: Decls,
    nbind: usize,
    /// all u8 literal patterns of the case are typed (`5u8`, `const K5: u8`); otherwise mostly plain (`5`) with some typed ones
    sized: bool,
}

impl<'a, 'b> G<'a, 'b> {
    fn gen_type(&mut self, budget: u64, depth: usize) -> Ty {
        let budget = budget.max(2);
        let max_kind = if depth >= 3 { 2 } else { 5 };
        match self.t.pick(max_kind) {
            0 => Ty::Bool,
            1 => {
                if budget >= 256 {
                    Ty::U8
                } else {
                    Ty::Bool
                }
            }
            2 => self.gen_enum(budget, depth),
            3 => Ty::Tuple(self.gen_product(budget, depth)),
            _ => {
                let fs = self.gen_product(budget, depth);
                self.d.structs.push(fs);
                Ty::Struct(self.d.structs.len() - 1)
            }
        }
    }
    fn gen_product(&mut self, budget: u64, depth: usize) -> Vec<Ty> {
        let k = 1 + self.t.pick(3);
        let mut out = vec![];
        let mut remaining = budget;
        for i in 0..k {
            // leave at least a factor 2 for each of the remaining components
            let b = remaining >> (k - i - 1);
            let t = self.gen_type(b.max(2), depth + 1);
            remaining = (remaining / self.d.size(&t).max(1)).max(1);
            out.push(t);
        }
        out
    }
    fn gen_enum(&mut self, budget: u64, depth: usize) -> Ty {
        // reuse an existing enum sometimes (same enum at two places of the scrutinee type)
        if !self.d.enums.is_empty() && self.t.chance(25) {
            let e = self.t.pick(self.d.enums.len());
            if self.d.size(&Ty::Enum(e)) <= budget {
                return Ty::Enum(e);
            }
        }
        let n = 1 + self.t.pick(4);
        let per = (budget / n as u64).max(1);
        let mut vs = vec![];
        for _ in 0..n {
            if per < 2 || self.t.chance(40) {
                vs.push(Ty::Unit);
            } else {
                vs.push(self.gen_type(per, depth + 1));
            }
        }
        self.d.enums.push(vs);
        Ty::Enum(self.d.enums.len() - 1)
    }

    fn fresh(&mut self) -> String {
        self.nbind += 1;
        format!("b{}", self.nbind)
    }
    fn wild_or_bind(&mut self, allow_bind: bool) -> Pat {
        if allow_bind && self.t.chance(30) {
            Pat::Bind(self.fresh())
        } else {
            Pat::Wild
        }
    }
    fn u8_lit(&mut self, n: u8) -> Pat {
        // `sized` cases use only typed literals / consts; the others mix plain literals with a few typed ones
        let k = self.t.pick(10);
        if self.sized {
            if k < 3 {
                Pat::Const(n)
            } else {
                Pat::U8(n, true)
            }
        } else {
            match k {
                8 => Pat::U8(n, true),
                9 => Pat::Const(n),
                _ => Pat::U8(n, false),
            }
        }
    }
    fn u8_point(&mut self) -> u8 {
        if self.t.chance(80) {
            U8_POINTS[self.t.pick(U8_POINTS.len())]
        } else {
            self.t.pick(256) as u8
        }
    }
    /// literal set: single value, contiguous run, run with one hole, optionally plus a boundary value
    fn u8_set(&mut self) -> Vec<u8> {
        let start = self.u8_point();
        let len = match self.t.pick(4) {
            0 => 1,
            1 => 2,
            2 => 3 + self.t.pick(3),
            _ => 1,
        };
        let mut vs: Vec<u8> = (0..len as u16).filter_map(|k| u8::try_from(start as u16 + k).ok()).collect();
        if vs.len() >= 3 && self.t.chance(35) {
            let h = 1 + self.t.pick(vs.len() - 2);
            vs.remove(h);
        }
        if self.t.chance(15) {
            let b = if self.t.chance(50) { 0 } else { 255 };
            if !vs.contains(&b) {
                vs.push(b);
            }
        }
        if self.t.chance(20) {
            vs.reverse();
        }
        vs
    }
    fn u8_pat(&mut self) -> Pat {
        let vs = self.u8_set();
        let mut ps: Vec<Pat> = vs.into_iter().map(|n| self.u8_lit(n)).collect();
        if ps.len() == 1 {
            ps.pop().unwrap()
        } else {
            Pat::Or(ps)
        }
    }

    /// random pattern of type `t`
    fn gen_pat(&mut self, t: &Ty, depth: usize, allow_bind: bool) -> Pat {
        if self.t.chance(if depth == 0 { 8 } else { 30 }) {
            return self.wild_or_bind(allow_bind);
        }
        match t.clone() {
            Ty::Unit => Pat::Wild,
            Ty::Bool => {
                if self.t.chance(10) {
                    Pat::Or(vec![Pat::Bool(true), Pat::Bool(false)])
                } else {
                    Pat::Bool(self.t.chance(50))
                }
            }
            Ty::U8 => self.u8_pat(),
            Ty::Enum(e) => {
                let n = self.d.enums[e].len();
                let one = |g: &mut Self, allow_bind: bool| {
                    let v = g.t.pick(n);
                    let pt = g.d.enums[e][v].clone();
                    if pt == Ty::Unit {
                        Pat::Variant(e, v, None)
                    } else {
                        let p = g.gen_pat(&pt, depth + 1, allow_bind);
                        Pat::Variant(e, v, Some(Box::new(p)))
                    }
                };
                if self.t.chance(20) {
                    let k = 2 + self.t.pick(2);
                    Pat::Or((0..k).map(|_| one(self, false)).collect())
                } else {
                    one(self, allow_bind)
                }
            }
            Ty::Tuple(ts) => {
                let p = Pat::Tuple(ts.iter().map(|t| self.gen_pat(t, depth + 1, allow_bind)).collect());
                self.maybe_or_variation(p, t, depth)
            }
            Ty::Struct(s) => {
                let fts = self.d.structs[s].clone();
                let mut fs = vec![];
                let mut rest = false;
                for (i, ft) in fts.iter().enumerate() {
                    if self.t.chance(25) {
                        rest = true; // field omitted, needs `..`
                        continue;
                    }
                    if allow_bind && self.t.chance(15) {
                        fs.push((i, None)); // shorthand binding `f{i}`
                    } else {
                        fs.push((i, Some(self.gen_pat(ft, depth + 1, allow_bind))));
                    }
                }
                if !rest && self.t.chance(10) {
                    rest = true;
                }
                if self.t.chance(15) {
                    fs.reverse(); // fields may be listed in any order
                }
                let p = Pat::Struct(s, fs, rest);
                self.maybe_or_variation(p, t, depth)
            }
        }
    }

    /// `p | p'` where p' is p with one literal leaf changed (alternatives bind the same variables)
    fn maybe_or_variation(&mut self, p: Pat, _t: &Ty, _depth: usize) -> Pat {
        if !self.t.chance(15) {
            return p;
        }
        let n = count_lits(&p);
        if n == 0 || p.has_or() {
            return p;
        }
        let mut alts = vec![p.clone()];
        let k = 1 + self.t.pick(2);
        for _ in 0..k {
            let mut q = p.clone();
            let mut which = self.t.pick(n);
            let nv = self.u8_point();
            vary_lit(&mut q, &mut which, nv);
            alts.push(q);
        }
        Pat::Or(alts)
    }

    /// patterns that together cover type `t` exactly
    fn partition(&mut self, t: &Ty, depth: usize, allow_bind: bool) -> Vec<Pat> {
        if depth >= 3 || self.t.chance(if depth == 0 { 0 } else { 25 }) {
            return vec![self.wild_or_bind(allow_bind)];
        }
        match t.clone() {
            Ty::Unit => vec![Pat::Wild],
            Ty::Bool => match self.t.pick(4) {
                0 => vec![Pat::Bool(true), Pat::Bool(false)],
                1 => vec![Pat::Bool(false), Pat::Bool(true)],
                2 => vec![Pat::Bool(true), self.wild_or_bind(allow_bind)],
                _ => vec![Pat::Or(vec![Pat::Bool(false), Pat::Bool(true)])],
            },
            Ty::U8 => {
                if self.t.chance(10) {
                    // full enumeration in consecutive chunks (complete signature without a wildcard)
                    let chunks = 1 + self.t.pick(4);
                    let mut cuts: Vec<u16> = (1..chunks).map(|_| 1 + self.t.pick(255) as u16).collect();
                    cuts.push(0);
                    cuts.push(256);
                    cuts.sort();
                    cuts.dedup();
                    let mut out = vec![];
                    for w in cuts.windows(2) {
                        let sized = self.sized;
                        let ps: Vec<Pat> = (w[0]..w[1]).map(|n| Pat::U8(n as u8, sized)).collect();
                        out.push(if ps.len() == 1 { ps.into_iter().next().unwrap() } else { Pat::Or(ps) });
                    }
                    if self.t.chance(30) {
                        out.reverse();
                    }
                    out
                } else {
                    let k = self.t.pick(4);
                    let mut out: Vec<Pat> = (0..k).map(|_| self.u8_pat()).collect();
                    out.push(self.wild_or_bind(allow_bind));
                    out
                }
            }
            Ty::Enum(e) => {
                let vts = self.d.enums[e].clone();
                let mut out = vec![];
                let mut order: Vec<usize> = (0..vts.len()).collect();
                if self.t.chance(30) {
                    order.reverse();
                }
                for v in order {
                    if vts[v] == Ty::Unit {
                        out.push(Pat::Variant(e, v, None));
                    } else {
                        for q in self.partition(&vts[v], depth + 1, allow_bind) {
                            out.push(Pat::Variant(e, v, Some(Box::new(q))));
                        }
                    }
                }
                // merge two bind-free neighbours into an or-pattern
                if out.len() >= 2 && self.t.chance(30) {
                    let i = self.t.pick(out.len() - 1);
                    if !out[i].has_binding() && !out[i + 1].has_binding() {
                        let b = out.remove(i + 1);
                        let a = out.remove(i);
                        out.insert(i, Pat::Or(flatten_or(vec![a, b])));
                    }
                }
                out
            }
            Ty::Tuple(ts) => self.partition_product(&ts, depth, allow_bind).into_iter().map(Pat::Tuple).collect(),
            Ty::Struct(s) => {
                let fts = self.d.structs[s].clone();
                let rows = self.partition_product(&fts, depth, allow_bind);
                rows.into_iter()
                    .map(|r| {
                        let drop_wild = self.t.chance(40);
                        let mut rest = false;
                        let mut fs = vec![];
                        for (i, p) in r.into_iter().enumerate() {
                            if drop_wild && p == Pat::Wild {
                                rest = true;
                            } else {
                                fs.push((i, Some(p)));
                            }
                        }
                        Pat::Struct(s, fs, rest)
                    })
                    .collect()
            }
        }
    }
    fn partition_product(&mut self, ts: &[Ty], depth: usize, allow_bind: bool) -> Vec<Vec<Pat>> {
        let n = ts.len();
        let k = self.t.pick(n);
        let pk = self.partition(&ts[k], depth + 1, allow_bind);
        let mut rows = vec![];
        for p in pk {
            if n >= 2 && self.t.chance(50) && rows.len() < 12 {
                let mut j = self.t.pick(n - 1);
                if j >= k {
                    j += 1;
                }
                for q in self.partition(&ts[j], depth + 1, allow_bind) {
                    let mut row = vec![Pat::Wild; n];
                    row[k] = self.rename_binds(&p);
                    row[j] = q;
                    rows.push(row);
                }
            } else {
                let mut row = vec![Pat::Wild; n];
                row[k] = p;
                rows.push(row);
            }
        }
        rows
    }
    /// copy of `p` with fresh variable names (a pattern used in several arms is fine, but keep names unique for clarity)
    fn rename_binds(&mut self, p: &Pat) -> Pat {
        match p {
            Pat::Bind(_) => Pat::Bind(self.fresh()),
            Pat::Variant(e, v, Some(q)) => Pat::Variant(*e, *v, Some(Box::new(self.rename_binds(q)))),
            Pat::Tuple(ps) => Pat::Tuple(ps.iter().map(|q| self.rename_binds(q)).collect()),
            Pat::Struct(s, fs, r) => Pat::Struct(*s, fs.iter().map(|(i, q)| (*i, q.as_ref().map(|q| self.rename_binds(q)))).collect(), *r),
            // alternatives of an or-pattern must keep binding the same names
            other => other.clone(),
        }
    }
}

fn flatten_or(ps: Vec<Pat>) -> Vec<Pat> {
    let mut out = vec![];
    for p in ps {
        match p {
            Pat::Or(a) => out.extend(a),
            p => out.push(p),
        }
    }
    out
}

fn count_lits(p: &Pat) -> usize {
    match p {
        Pat::Bool(_) | Pat::U8(..) | Pat::Const(_) => 1,
        Pat::Variant(_, _, Some(q)) => count_lits(q),
        Pat::Tuple(ps) | Pat::Or(ps) => ps.iter().map(count_lits).sum(),
        Pat::Struct(_, fs, _) => fs.iter().map(|(_, q)| q.as_ref().map(count_lits).unwrap_or(0)).sum(),
        _ => 0,
    }
}
fn vary_lit(p: &mut Pat, which: &mut usize, nv: u8) {
    match p {
        Pat::Bool(b) => {
            if *which == 0 {
                *b = !*b;
            }
            *which = which.wrapping_sub(1);
        }
        Pat::U8(n, _) | Pat::Const(n) => {
            if *which == 0 {
                *n = if *n == nv { nv.wrapping_add(1) } else { nv };
            }
            *which = which.wrapping_sub(1);
        }
        Pat::Variant(_, _, Some(q)) => vary_lit(q, which, nv),
        Pat::Tuple(ps) | Pat::Or(ps) => ps.iter_mut().for_each(|q| vary_lit(q, which, nv)),
        Pat::Struct(_, fs, _) => fs.iter_mut().for_each(|(_, q)| {
            if let Some(q) = q {
                vary_lit(q, which, nv)
            }
        }),
        _ => {}
    }
}

/// a variable name may be bound only once per arm: rename later duplicates (struct shorthands become `f: bN`)
fn dedup_binds(p: &mut Pat, seen: &mut Vec<String>, next: &mut usize, in_or: bool) {
    match p {
        Pat::Bind(n) => {
            if seen.contains(n) && !in_or {
                *next += 1;
                *n = format!("d{next}");
            }
            if !seen.contains(n) {
                seen.push(n.clone());
            }
        }
        Pat::Variant(_, _, Some(q)) => dedup_binds(q, seen, next, in_or),
        Pat::Tuple(ps) => ps.iter_mut().for_each(|q| dedup_binds(q, seen, next, in_or)),
        Pat::Struct(_, fs, _) => {
            for (i, q) in fs.iter_mut() {
                match q {
                    None => {
                        let n = format!("f{i}");
                        if seen.contains(&n) {
                            if in_or {
                                *q = Some(Pat::Wild);
                            } else {
                                *next += 1;
                                *q = Some(Pat::Bind(format!("d{next}")));
                            }
                        } else {
                            seen.push(n);
                        }
                    }
                    Some(q) => dedup_binds(q, seen, next, in_or),
                }
            }
        }
        Pat::Or(alts) => {
            // every alternative binds the same set: each starts from the same `seen`
            let base = seen.clone();
            let mut after = base.clone();
            for a in alts.iter_mut() {
                let mut s = base.clone();
                dedup_binds(a, &mut s, next, true);
                after = s;
            }
            *seen = after;
        }
        _ => {}
    }
}

pub fn generate(tape: &[u16]) -> Case {
    let mut t = Tape::new(tape);
    let mode_pick = t.pick(10);
    let sized = t.chance(25);
    let mut g = G { t: &mut t, d: Decls::default(), nbind: 0, sized };
    // scrutinee type
    let mut ty = if g.t.chance(85) {
        match g.t.pick(3) {
            0 => g.gen_enum(MAX_SPACE, 0),
            1 => Ty::Tuple(g.gen_product(MAX_SPACE, 0)),
            _ => {
                let fs = g.gen_product(MAX_SPACE, 0);
                g.d.structs.push(fs);
                Ty::Struct(g.d.structs.len() - 1)
            }
        }
    } else {
        g.gen_type(MAX_SPACE, 0)
    };
    if g.d.size(&ty) > MAX_SPACE || g.d.size(&ty) == 0 {
        ty = Ty::Bool;
    }
    let (mode, mut arms): (&'static str, Vec<Pat>) = match mode_pick {
        0..=3 => {
            let n = 1 + g.t.pick(7);
            ("random", (0..n).map(|_| g.gen_pat(&ty, 0, true)).collect())
        }
        4 => {
            let n = 1 + g.t.pick(6);
            let mut a: Vec<Pat> = (0..n).map(|_| g.gen_pat(&ty, 0, true)).collect();
            a.push(g.wild_or_bind(true));
            ("random+catch-all", a)
        }
        _ => ("partition", g.partition(&ty, 0, true)),
    };
    if mode == "partition" {
        if arms.len() > MAX_ARMS {
            arms.truncate(MAX_ARMS - 1);
            arms.push(Pat::Wild);
        }
        // perturbations
        if arms.len() >= 2 && g.t.chance(40) {
            let k = g.t.pick(arms.len());
            arms.remove(k);
        }
        if arms.len() < MAX_ARMS && g.t.chance(25) {
            let k = g.t.pick(arms.len());
            let at = k + 1 + g.t.pick(arms.len() - k);
            let dup = arms[k].clone();
            arms.insert(at, dup);
        }
        if arms.len() >= 2 && g.t.chance(30) {
            let a = g.t.pick(arms.len());
            let b = g.t.pick(arms.len());
            arms.swap(a, b);
        }
        if arms.len() < MAX_ARMS && g.t.chance(25) {
            let at = g.t.pick(arms.len() + 1);
            let p = g.gen_pat(&ty, 0, true);
            arms.insert(at, p);
        }
        if arms.len() >= 2 && g.t.chance(15) {
            let i = g.t.pick(arms.len() - 1);
            if !arms[i].has_binding() && !arms[i + 1].has_binding() {
                let b = arms.remove(i + 1);
                let a = arms.remove(i);
                arms.insert(i, Pat::Or(flatten_or(vec![a, b])));
            }
        }
        // drop one alternative of an or-pattern (a single missing literal)
        if g.t.chance(30) {
            let k = g.t.pick(arms.len());
            drop_one_alternative(&mut arms[k], g.t.next());
        }
    }
    let mut next = 0usize;
    for a in arms.iter_mut() {
        let mut seen = vec![];
        dedup_binds(a, &mut seen, &mut next, false);
    }
    Case { decls: g.d, ty, arms, mode }
}

fn drop_one_alternative(p: &mut Pat, r: u16) -> bool {
    match p {
        Pat::Or(alts) if alts.len() >= 2 && !alts.iter().any(|a| a.has_binding()) => {
            let k = idx(r, alts.len());
            alts.remove(k);
            if alts.len() == 1 {
                *p = alts.pop().unwrap();
            }
            true
        }
        Pat::Variant(_, _, Some(q)) => drop_one_alternative(q, r),
        Pat::Tuple(ps) => ps.iter_mut().any(|q| drop_one_alternative(q, r)),
        Pat::Struct(_, fs, _) => fs.iter_mut().any(|(_, q)| q.as_mut().map(|q| drop_one_alternative(q, r)).unwrap_or(false)),
        _ => false,
    }
}
