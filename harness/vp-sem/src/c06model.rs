//! C06 model: integer types, operators, operand pools, literal rendering, big-integer model (triage only).
use num_bigint::BigUint;
use num_traits::{One, Zero};

#[derive(Clone, Copy, Debug, PartialEq, Eq, Hash, PartialOrd, Ord)]
pub enum T {
    U8,
    U16,
    U32,
    U64,
    U256,
    B256,
}
pub const ALL_T: [T; 6] = [T::U8, T::U16, T::U32, T::U64, T::U256, T::B256];

impl T {
    pub fn bits(self) -> u32 {
        match self {
            T::U8 => 8,
            T::U16 => 16,
            T::U32 => 32,
            T::U64 => 64,
            T::U256 | T::B256 => 256,
        }
    }
    pub fn bytes(self) -> usize {
        self.bits() as usize / 8
    }
    pub fn name(self) -> &'static str {
        match self {
            T::U8 => "u8",
            T::U16 => "u16",
            T::U32 => "u32",
            T::U64 => "u64",
            T::U256 => "u256",
            T::B256 => "b256",
        }
    }
    pub fn max(self) -> BigUint {
        (BigUint::one() << self.bits()) - BigUint::one()
    }
    pub fn lit(self, v: &BigUint) -> String {
        match self {
            T::U256 => format!("0x{:064x}u256", v),
            T::B256 => format!("0x{:064x}", v),
            t => format!("{}{}", v, t.name()),
        }
    }
    pub fn encode(self, v: &BigUint) -> Vec<u8> {
        let b = v.to_bytes_be();
        let n = self.bytes();
        let mut out = vec![0u8; n.saturating_sub(b.len())];
        out.extend_from_slice(&b[b.len().saturating_sub(n)..]);
        out
    }
}

#[derive(Clone, Copy, Debug, PartialEq, Eq, Hash)]
pub enum Op {
    Add,
    Sub,
    Mul,
    Div,
    Mod,
    And,
    Or,
    Xor,
    Lsh,
    Rsh,
    Not,
    Eq,
    Ne,
    Lt,
    Gt,
    Le,
    Ge,
    /// conversion method, e.g. "as_u64", "try_as_u8"
    Conv(&'static str),
}

impl Op {
    pub fn name(self) -> &'static str {
        match self {
            Op::Add => "add",
            Op::Sub => "sub",
            Op::Mul => "mul",
            Op::Div => "div",
            Op::Mod => "mod",
            Op::And => "and",
            Op::Or => "or",
            Op::Xor => "xor",
            Op::Lsh => "lsh",
            Op::Rsh => "rsh",
            Op::Not => "not",
            Op::Eq => "eq",
            Op::Ne => "ne",
            Op::Lt => "lt",
            Op::Gt => "gt",
            Op::Le => "le",
            Op::Ge => "ge",
            Op::Conv(m) => m,
        }
    }
    pub fn is_shift(self) -> bool {
        matches!(self, Op::Lsh | Op::Rsh)
    }
    pub fn is_unary(self) -> bool {
        matches!(self, Op::Not | Op::Conv(_))
    }
    pub fn is_cmp(self) -> bool {
        matches!(self, Op::Eq | Op::Ne | Op::Lt | Op::Gt | Op::Le | Op::Ge)
    }
    /// Sway source of the operation on operand texts `a`, `b`
    pub fn render(self, a: &str, b: &str) -> String {
        match self {
            Op::Add => format!("{a} + {b}"),
            Op::Sub => format!("{a} - {b}"),
            Op::Mul => format!("{a} * {b}"),
            Op::Div => format!("{a} / {b}"),
            Op::Mod => format!("{a} % {b}"),
            Op::And => format!("{a} & {b}"),
            Op::Or => format!("{a} | {b}"),
            Op::Xor => format!("{a} ^ {b}"),
            Op::Lsh => format!("{a} << {b}"),
            Op::Rsh => format!("{a} >> {b}"),
            Op::Not => format!("!{a}"),
            Op::Eq => format!("{a} == {b}"),
            Op::Ne => format!("{a} != {b}"),
            Op::Lt => format!("{a} < {b}"),
            Op::Gt => format!("{a} > {b}"),
            Op::Le => format!("{a} <= {b}"),
            Op::Ge => format!("{a} >= {b}"),
            Op::Conv(m) => format!("{a}.{m}()"),
        }
    }
}

/// operators available on type `t`, in the order of the operator table script
pub fn ops_of(t: T) -> Vec<Op> {
    let mut v = vec![];
    if t != T::B256 {
        v.extend([Op::Add, Op::Sub, Op::Mul, Op::Div, Op::Mod]);
    }
    v.extend([Op::And, Op::Or, Op::Xor, Op::Lsh, Op::Rsh, Op::Not, Op::Eq, Op::Ne, Op::Lt, Op::Gt, Op::Le, Op::Ge]);
    let convs: &[&'static str] = match t {
        T::U8 => &["as_u16", "as_u32", "as_u64", "as_u256"],
        T::U16 => &["as_u32", "as_u64", "as_u256", "try_as_u8"],
        T::U32 => &["as_u64", "as_u256", "try_as_u8", "try_as_u16"],
        T::U64 => &["as_u256", "try_as_u8", "try_as_u16", "try_as_u32"],
        T::U256 => &["as_b256"],
        T::B256 => &["as_u256"],
    };
    v.extend(convs.iter().map(|m| Op::Conv(m)));
    v
}

/// Sway type of the result of `op` on `t`
pub fn result_type(t: T, op: Op) -> String {
    match op {
        o if o.is_cmp() => "bool".into(),
        Op::Conv(m) => {
            if let Some(r) = m.strip_prefix("try_as_") {
                format!("Option<{r}>")
            } else {
                m.strip_prefix("as_").unwrap().to_string()
            }
        }
        _ => t.name().into(),
    }
}

pub fn pow2(k: u32) -> BigUint {
    BigUint::one() << k
}

/// boundary pool of type `t`: 0,1,2,max,max-1 and 2^k, 2^k±1
pub fn is_boundary(t: T, v: &BigUint) -> bool {
    let max = t.max();
    if *v <= BigUint::from(2u8) || *v >= &max - BigUint::one() {
        return true;
    }
    for d in [0u8, 1, 2] {
        // v-1, v, v+1 a power of two
        let x = v + BigUint::one() - BigUint::from(d);
        if x.count_ones() == 1 {
            return true;
        }
    }
    false
}

pub const SHIFT_AMOUNTS: [u64; 20] = [0, 1, 2, 7, 8, 9, 15, 16, 17, 31, 32, 33, 63, 64, 65, 255, 256, 257, 1 << 32, u64::MAX];

/// Big-integer model of the run-time semantics; None = aborts. Returns the bytes the program logs.
/// Used for triage and classification only: the reference of the property is the VM.
pub fn model(t: T, op: Op, a: &BigUint, b: &BigUint) -> Option<Vec<u8>> {
    let max = t.max();
    let fits = |v: BigUint| if v <= max { Some(t.encode(&v)) } else { None };
    let bool_ = |x: bool| Some(vec![x as u8]);
    match op {
        Op::Add => fits(a + b),
        Op::Sub => {
            if a >= b {
                fits(a - b)
            } else {
                None
            }
        }
        Op::Mul => fits(a * b),
        Op::Div => {
            if b.is_zero() {
                None
            } else {
                fits(a / b)
            }
        }
        Op::Mod => {
            if b.is_zero() {
                None
            } else {
                fits(a % b)
            }
        }
        Op::And => fits(a & b),
        Op::Or => fits(a | b),
        Op::Xor => fits(a ^ b),
        Op::Not => fits(&max ^ a),
        Op::Lsh => {
            let s: u64 = b.try_into().unwrap_or(u64::MAX);
            if s >= t.bits() as u64 {
                fits(BigUint::zero())
            } else {
                fits((a << s) & &max)
            }
        }
        Op::Rsh => {
            let s: u64 = b.try_into().unwrap_or(u64::MAX);
            if s >= t.bits() as u64 {
                fits(BigUint::zero())
            } else {
                fits(a >> s)
            }
        }
        Op::Eq => bool_(a == b),
        Op::Ne => bool_(a != b),
        Op::Lt => bool_(a < b),
        Op::Gt => bool_(a > b),
        Op::Le => bool_(a <= b),
        Op::Ge => bool_(a >= b),
        Op::Conv(m) => {
            let (try_, target) = match m.strip_prefix("try_as_") {
                Some(r) => (true, r),
                None => (false, m.strip_prefix("as_").unwrap()),
            };
            let tt = match target {
                "u8" => T::U8,
                "u16" => T::U16,
                "u32" => T::U32,
                "u64" => T::U64,
                "u256" => T::U256,
                _ => T::B256,
            };
            if try_ {
                if *a <= tt.max() {
                    let mut out = 1u64.to_be_bytes().to_vec();
                    out.extend(tt.encode(a));
                    Some(out)
                } else {
                    Some(0u64.to_be_bytes().to_vec())
                }
            } else {
                Some(tt.encode(a))
            }
        }
    }
}
