//! vp-sem: semantic-analysis properties. C14 (match exhaustiveness / reachability / first-match semantics) and
//! C06 (compile-time evaluation agrees with run-time evaluation).
mod c06;
mod c06model;
mod c14;
mod c14gen;
mod c14model;
mod c14wit;
mod probe;
mod watch;

use vcommon::*;

fn main() {
    install_panic_hook();
    let args: Vec<String> = std::env::args().collect();
    if args.len() < 2 {
        eprintln!("usage: vp-sem <C06|C14> <quick|thorough> | replay <file> | probe <file.sw> [hex script data]");
        std::process::exit(2);
    }
    let h = std::thread::Builder::new()
        .stack_size(512 << 20)
        .spawn(move || {
            let tier = args.get(2).map(|s| s.as_str()).unwrap_or("quick").to_string();
            match args[1].as_str() {
                "C14" => c14::run(&Ctx::new("C14", &tier)),
                "C06" => c06::run(&Ctx::new("C06", &tier)),
                "probe" => probe::run(&args[2..]),
                "probe-many" => probe::run_many(&args[2..]),
                "c14-dump" => c14::dump(&args[2..]),
                "c06-dump" => c06::dump(&args[2..]),
                "replay" => replay(&args[2]),
                x => {
                    eprintln!("unknown command {x}");
                    std::process::exit(2)
                }
            }
        })
        .unwrap();
    let _ = h.join();
    std::process::exit(2);
}

fn replay(path: &str) {
    let txt = std::fs::read_to_string(path).expect("read replay file");
    let v: serde_json::Value = serde_json::from_str(&txt).expect("json");
    let prop = v["property"].as_str().unwrap_or("").to_string();
    let case = &v["case"];
    let res: Result<(), String> = match prop.as_str() {
        "C14" => c14::replay(case),
        "C06" => c06::replay(case),
        _ => Err(format!("vp-sem does not serve property {prop}")),
    };
    vcore::fastc::drop_thread_fastc();
    match res {
        Ok(()) => {
            println!("replay: property holds on this input");
            std::process::exit(0)
        }
        Err(e) => {
            println!("replay: {e}");
            println!("VIOLATION property={} replay={}", prop, path);
            std::process::exit(1)
        }
    }
}
