//! C14 model: finite scrutinee types, values, patterns, brute-force matching, Sway emission, ABI encoding.
use std::fmt::Write;

#[derive(Clone, Debug, PartialEq, Eq)]
pub enum Ty {
    Unit,
    Bool,
    U8,
    Enum(usize),
    Struct(usize),
    Tuple(Vec<Ty>),
}
#[derive(Clone, Debug, Default)]
pub struct Decls {
    pub enums: Vec<Vec<Ty>>,   // E{i} { V0: .., V1: .. }
    pub structs: Vec<Vec<Ty>>, // S{i} { f0: .., f1: .. }
}
#[derive(Clone, Debug, PartialEq, Eq)]
pub enum Val {
    Unit,
    Bool(bool),
    U8(u8),
    Enum(usize, usize, Box<Val>),
    Struct(usize, Vec<Val>),
    Tuple(Vec<Val>),
}
#[derive(Clone, Debug, PartialEq, Eq)]
pub enum Pat {
    Wild,
    Bind(String),
    Bool(bool),
    /// literal, written with a `u8` suffix when the flag is set
    U8(u8, bool),
    /// a `const Kn: u8 = n;` used as a pattern
    Const(u8),
    /// payload None = unit variant written without parentheses
    Variant(usize, usize, Option<Box<Pat>>),
    Tuple(Vec<Pat>),
    /// (field index, None = shorthand `f3` binding a variable of that name); bool = trailing `..`
    Struct(usize, Vec<(usize, Option<Pat>)>, bool),
    Or(Vec<Pat>),
}

impl Decls {
    pub fn size(&self, t: &Ty) -> u64 {
        match t {
            Ty::Unit => 1,
            Ty::Bool => 2,
            Ty::U8 => 256,
            Ty::Enum(e) => self.enums[*e].iter().map(|p| self.size(p)).fold(0u64, |a, b| a.saturating_add(b)),
            Ty::Struct(s) => self.structs[*s].iter().map(|p| self.size(p)).fold(1u64, |a, b| a.saturating_mul(b)),
            Ty::Tuple(ts) => ts.iter().map(|p| self.size(p)).fold(1u64, |a, b| a.saturating_mul(b)),
        }
    }
    pub fn enumerate(&self, t: &Ty) -> Vec<Val> {
        match t {
            Ty::Unit => vec![Val::Unit],
            Ty::Bool => vec![Val::Bool(false), Val::Bool(true)],
            Ty::U8 => (0..=255u8).map(Val::U8).collect(),
            Ty::Enum(e) => {
                let mut out = vec![];
                for (vi, p) in self.enums[*e].iter().enumerate() {
                    for v in self.enumerate(p) {
                        out.push(Val::Enum(*e, vi, Box::new(v)));
                    }
                }
                out
            }
            Ty::Struct(s) => self.product(&self.structs[*s]).into_iter().map(|vs| Val::Struct(*s, vs)).collect(),
            Ty::Tuple(ts) => self.product(ts).into_iter().map(Val::Tuple).collect(),
        }
    }
    fn product(&self, ts: &[Ty]) -> Vec<Vec<Val>> {
        let mut out: Vec<Vec<Val>> = vec![vec![]];
        for t in ts {
            let vs = self.enumerate(t);
            let mut next = Vec::with_capacity(out.len() * vs.len());
            for pre in &out {
                for v in &vs {
                    let mut x = pre.clone();
                    x.push(v.clone());
                    next.push(x);
                }
            }
            out = next;
        }
        out
    }
    pub fn ty_str(&self, t: &Ty) -> String {
        match t {
            Ty::Unit => "()".into(),
            Ty::Bool => "bool".into(),
            Ty::U8 => "u8".into(),
            Ty::Enum(e) => format!("E{e}"),
            Ty::Struct(s) => format!("S{s}"),
            Ty::Tuple(ts) => {
                if ts.len() == 1 {
                    format!("({},)", self.ty_str(&ts[0]))
                } else {
                    format!("({})", ts.iter().map(|t| self.ty_str(t)).collect::<Vec<_>>().join(", "))
                }
            }
        }
    }
    pub fn decl_src(&self) -> String {
        let mut s = String::new();
        for (i, vs) in self.enums.iter().enumerate() {
            let _ = writeln!(s, "enum E{i} {{ {} }}", vs.iter().enumerate().map(|(k, t)| format!("V{k}: {}", self.ty_str(t))).collect::<Vec<_>>().join(", "));
        }
        for (i, fs) in self.structs.iter().enumerate() {
            let _ = writeln!(s, "struct S{i} {{ {} }}", fs.iter().enumerate().map(|(k, t)| format!("f{k}: {}", self.ty_str(t))).collect::<Vec<_>>().join(", "));
        }
        s
    }
}

impl Val {
    pub fn encode(&self, out: &mut Vec<u8>) {
        match self {
            Val::Unit => {}
            Val::Bool(b) => out.push(*b as u8),
            Val::U8(n) => out.push(*n),
            Val::Enum(_, v, p) => {
                out.extend_from_slice(&(*v as u64).to_be_bytes());
                p.encode(out);
            }
            Val::Struct(_, vs) | Val::Tuple(vs) => vs.iter().for_each(|v| v.encode(out)),
        }
    }
    pub fn render(&self) -> String {
        match self {
            Val::Unit => "()".into(),
            Val::Bool(b) => b.to_string(),
            Val::U8(n) => n.to_string(),
            Val::Enum(e, v, p) => format!("E{e}::V{v}({})", p.render()),
            Val::Struct(s, vs) => format!("S{s}{{{}}}", vs.iter().map(|v| v.render()).collect::<Vec<_>>().join(",")),
            Val::Tuple(vs) => format!("({})", vs.iter().map(|v| v.render()).collect::<Vec<_>>().join(",")),
        }
    }
}

impl Pat {
    /// Does the pattern match the value? On a match, append the variables it binds (first matching alternative of an or-pattern).
    pub fn matches(&self, v: &Val, binds: &mut Vec<(String, Val)>) -> bool {
        match (self, v) {
            (Pat::Wild, _) => true,
            (Pat::Bind(n), v) => {
                binds.push((n.clone(), v.clone()));
                true
            }
            (Pat::Bool(a), Val::Bool(b)) => a == b,
            (Pat::U8(a, _), Val::U8(b)) | (Pat::Const(a), Val::U8(b)) => a == b,
            (Pat::Variant(_, pv, pp), Val::Enum(_, vv, vp)) => {
                pv == vv
                    && match pp {
                        None => true,
                        Some(p) => p.matches(vp, binds),
                    }
            }
            (Pat::Tuple(ps), Val::Tuple(vs)) => {
                let mark = binds.len();
                for (p, v) in ps.iter().zip(vs) {
                    if !p.matches(v, binds) {
                        binds.truncate(mark);
                        return false;
                    }
                }
                true
            }
            (Pat::Struct(_, fs, _), Val::Struct(_, vs)) => {
                let mark = binds.len();
                for (fi, p) in fs {
                    let ok = match p {
                        None => {
                            binds.push((format!("f{fi}"), vs[*fi].clone()));
                            true
                        }
                        Some(p) => p.matches(&vs[*fi], binds),
                    };
                    if !ok {
                        binds.truncate(mark);
                        return false;
                    }
                }
                true
            }
            (Pat::Or(alts), v) => {
                for a in alts {
                    let mark = binds.len();
                    if a.matches(v, binds) {
                        return true;
                    }
                    binds.truncate(mark);
                }
                false
            }
            _ => false,
        }
    }
    pub fn has_binding(&self) -> bool {
        match self {
            Pat::Bind(_) => true,
            Pat::Variant(_, _, Some(p)) => p.has_binding(),
            Pat::Tuple(ps) | Pat::Or(ps) => ps.iter().any(|p| p.has_binding()),
            Pat::Struct(_, fs, _) => fs.iter().any(|(_, p)| p.as_ref().map(|p| p.has_binding()).unwrap_or(true)),
            _ => false,
        }
    }
    pub fn has_or(&self) -> bool {
        match self {
            Pat::Or(_) => true,
            Pat::Variant(_, _, Some(p)) => p.has_or(),
            Pat::Tuple(ps) => ps.iter().any(|p| p.has_or()),
            Pat::Struct(_, fs, _) => fs.iter().any(|(_, p)| p.as_ref().map(|p| p.has_or()).unwrap_or(false)),
            _ => false,
        }
    }
    pub fn depth(&self) -> usize {
        match self {
            Pat::Variant(_, _, Some(p)) => 1 + p.depth(),
            Pat::Tuple(ps) | Pat::Or(ps) => 1 + ps.iter().map(|p| p.depth()).max().unwrap_or(0),
            Pat::Struct(_, fs, _) => 1 + fs.iter().map(|(_, p)| p.as_ref().map(|p| p.depth()).unwrap_or(0)).max().unwrap_or(0),
            _ => 0,
        }
    }
    pub fn consts(&self, out: &mut Vec<u8>) {
        match self {
            Pat::Const(n) => {
                if !out.contains(n) {
                    out.push(*n)
                }
            }
            Pat::Variant(_, _, Some(p)) => p.consts(out),
            Pat::Tuple(ps) | Pat::Or(ps) => ps.iter().for_each(|p| p.consts(out)),
            Pat::Struct(_, fs, _) => fs.iter().for_each(|(_, p)| {
                if let Some(p) = p {
                    p.consts(out)
                }
            }),
            _ => {}
        }
    }
    pub fn render(&self) -> String {
        match self {
            Pat::Wild => "_".into(),
            Pat::Bind(n) => n.clone(),
            Pat::Bool(b) => b.to_string(),
            Pat::U8(n, sfx) => {
                if *sfx {
                    format!("{n}u8")
                } else {
                    n.to_string()
                }
            }
            Pat::Const(n) => format!("K{n}"),
            Pat::Variant(e, v, None) => format!("E{e}::V{v}"),
            Pat::Variant(e, v, Some(p)) => format!("E{e}::V{v}({})", p.render()),
            Pat::Tuple(ps) => {
                if ps.len() == 1 {
                    format!("({},)", ps[0].render())
                } else {
                    format!("({})", ps.iter().map(|p| p.render()).collect::<Vec<_>>().join(", "))
                }
            }
            Pat::Struct(s, fs, rest) => {
                let mut parts: Vec<String> = fs
                    .iter()
                    .map(|(fi, p)| match p {
                        None => format!("f{fi}"),
                        Some(p) => format!("f{fi}: {}", p.render()),
                    })
                    .collect();
                if *rest {
                    parts.push("..".into());
                }
                format!("S{s} {{ {} }}", parts.join(", "))
            }
            Pat::Or(alts) => alts.iter().map(|p| p.render()).collect::<Vec<_>>().join(" | "),
        }
    }
}

#[derive(Clone, Debug)]
pub struct Case {
    pub decls: Decls,
    pub ty: Ty,
    pub arms: Vec<Pat>,
    pub mode: &'static str,
}


pub struct Emitted {
    pub src: String,
    /// 1-based line of arm i
    pub arm_line: Vec<usize>,
    /// per arm: the variable whose value is folded into the result, if any
    pub arm_bind: Vec<Option<(String, Ty)>>,
}

impl Case {
    /// leaf-typed (u8/bool) variables bound by `p` when matching type `t` (name, type); or-patterns: taken from the first alternative
    pub fn leaf_binds(&self, p: &Pat, t: &Ty, out: &mut Vec<(String, Ty)>) {
        match (p, t) {
            (Pat::Bind(n), Ty::U8 | Ty::Bool) => out.push((n.clone(), t.clone())),
            (Pat::Variant(_, v, Some(pp)), Ty::Enum(e)) => self.leaf_binds(pp, &self.decls.enums[*e][*v], out),
            (Pat::Tuple(ps), Ty::Tuple(ts)) => ps.iter().zip(ts).for_each(|(p, t)| self.leaf_binds(p, t, out)),
            (Pat::Struct(_, fs, _), Ty::Struct(s)) => {
                for (fi, p) in fs {
                    let ft = &self.decls.structs[*s][*fi];
                    match p {
                        None => {
                            if matches!(ft, Ty::U8 | Ty::Bool) {
                                out.push((format!("f{fi}"), ft.clone()))
                            }
                        }
                        Some(p) => self.leaf_binds(p, ft, out),
                    }
                }
            }
            (Pat::Or(alts), t) => {
                if let Some(a) = alts.first() {
                    self.leaf_binds(a, t, out)
                }
            }
            _ => {}
        }
    }

    /// `extra_catch_all`: append `_ => <n>` (used to make a non-exhaustive match runnable)
    pub fn emit(&self, extra_catch_all: bool) -> Emitted {
        let mut src = String::from("script;\n");
        src.push_str(&self.decls.decl_src());
        let mut ks = vec![];
        self.arms.iter().for_each(|a| a.consts(&mut ks));
        ks.sort();
        for k in &ks {
            let _ = writeln!(src, "const K{k}: u8 = {k};");
        }
        let t = self.decls.ty_str(&self.ty);
        let _ = writeln!(src, "fn m(x: {t}) -> u64 {{");
        let _ = writeln!(src, "    match x {{");
        let mut arm_line = vec![];
        let mut arm_bind = vec![];
        let mut line = src.matches('\n').count() + 1;
        for (i, a) in self.arms.iter().enumerate() {
            let mut lb = vec![];
            self.leaf_binds(a, &self.ty, &mut lb);
            let b = lb.into_iter().next();
            let rhs = match &b {
                None => format!("{i}"),
                Some((n, Ty::U8)) => format!("{i} + 16 * {n}.as_u64()"),
                Some((n, _)) => format!("{i} + 16 * (if {n} {{ 1 }} else {{ 2 }})"),
            };
            let _ = writeln!(src, "        {} => {rhs},", a.render());
            arm_line.push(line);
            arm_bind.push(b);
            line += 1;
        }
        if extra_catch_all {
            let _ = writeln!(src, "        _ => {},", self.arms.len());
            arm_line.push(line);
            arm_bind.push(None);
        }
        src.push_str("    }\n}\n");
        let _ = writeln!(src, "fn main(x: {t}) -> u64 {{\n    m(x)\n}}");
        Emitted { src, arm_line, arm_bind }
    }
}
