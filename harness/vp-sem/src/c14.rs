//! C14: match exhaustiveness and reachability are exact; at run time the first matching arm executes.
use crate::c14gen::generate;
use crate::c14model::*;
use crate::c14wit::{parse_witness, split_missing};
use proptest::prelude::*;
use serde_json::{json, Value};
use std::collections::BTreeSet;
use sway_core::OptLevel;
use sway_error::error::CompileError;
use sway_error::warning::Warning;
use sway_types::Spanned;
use vcommon::*;
use vcore::exec::{self, End};
use vcore::fastc::with_fastc;

pub fn tape_strategy() -> impl Strategy<Value = Vec<u16>> {
    prop::collection::vec(any::<u16>(), 400..401)
}

/// what the brute force says about a case
pub struct Truth {
    pub space: usize,
    /// number of values whose first matching arm is i
    pub cover: Vec<usize>,
    pub uncovered: Vec<usize>, // indices into values
    pub values: Vec<Val>,
    pub first: Vec<Option<usize>>,
}

pub fn brute_force(c: &Case) -> Truth {
    let values = c.decls.enumerate(&c.ty);
    let mut cover = vec![0usize; c.arms.len()];
    let mut uncovered = vec![];
    let mut first = Vec::with_capacity(values.len());
    let mut b = vec![];
    for (vi, v) in values.iter().enumerate() {
        let f = c.arms.iter().position(|a| {
            b.clear();
            a.matches(v, &mut b)
        });
        match f {
            Some(i) => cover[i] += 1,
            None => uncovered.push(vi),
        }
        first.push(f);
    }
    Truth { space: values.len(), cover, uncovered, values, first }
}

/// what the compiler said
#[derive(Debug, Default)]
pub struct Diag {
    pub non_exhaustive: Vec<String>, // missing_patterns strings (one per error)
    pub unreachable_lines: Vec<usize>,
    pub other_errors: Vec<String>,
    pub internal: Vec<String>,
    pub panic: Option<String>,
}

pub static T_DIAG_MS: std::sync::atomic::AtomicU64 = std::sync::atomic::AtomicU64::new(0);
pub static T_BUILD_MS: std::sync::atomic::AtomicU64 = std::sync::atomic::AtomicU64::new(0);
pub static T_RUN_MS: std::sync::atomic::AtomicU64 = std::sync::atomic::AtomicU64::new(0);
pub static T_SLOWEST_DIAG_MS: std::sync::atomic::AtomicU64 = std::sync::atomic::AtomicU64::new(0);

pub fn diagnostics(src: &str) -> Diag {
    with_fastc(400, |_| ());
    let t0 = std::time::Instant::now();
    let d = diagnostics_inner(src);
    let ms = t0.elapsed().as_millis() as u64;
    T_DIAG_MS.fetch_add(ms, std::sync::atomic::Ordering::Relaxed);
    T_SLOWEST_DIAG_MS.fetch_max(ms, std::sync::atomic::Ordering::Relaxed);
    d
}
fn diagnostics_inner(src: &str) -> Diag {
    let mut d = Diag::default();
    let r = crate::watch::watched(src, || with_fastc(400, |fc| catch(|| fc.to_ast(src, OptLevel::Opt0))));
    let (_progs, handler, _) = match r {
        Ok(x) => x,
        Err(p) => {
            vcore::fastc::forget_thread_fastc();
            d.panic = Some(format!("{} :: {}", p.location, p.message));
            return d;
        }
    };
    let (errs, warns, _) = handler.consume();
    for e in &errs {
        match e {
            CompileError::MatchExpressionNonExhaustive { missing_patterns, .. } => d.non_exhaustive.push(missing_patterns.clone()),
            CompileError::Internal(..) | CompileError::InternalOwned(..) => d.internal.push(e.to_string()),
            other => d.other_errors.push(format!("{} @ line {}", other, other.span().start_line_col_one_index().line)),
        }
    }
    for w in &warns {
        if let Warning::MatchExpressionUnreachableArm { unreachable_arm, .. } = &w.warning_content {
            d.unreachable_lines.push(unreachable_arm.start_line_col_one_index().line);
        }
    }
    d
}

pub struct CaseStats {
    pub nontrivial: bool,
    pub exhaustive: bool,
    pub unreachable: usize,
    pub runs: usize,
    pub witnesses: usize,
    pub witnesses_exact: usize,
}

type Fail = (String, String, Value);

fn mask_digits(s: &str) -> String {
    let mut out = String::new();
    for c in s.chars().take(120) {
        if c.is_ascii_digit() {
            if !out.ends_with('#') {
                out.push('#');
            }
        } else {
            out.push(c);
        }
    }
    out
}

/// Check the diagnostics of `src` (arms at `arm_line`) against the brute force. Returns (witness count, exact witness count).
fn check_diagnostics(c: &Case, em: &Emitted, arms: &[Pat], t: &Truth, rep: &Report, mk: &dyn Fn(&str, String, Value) -> Fail) -> Result<Option<(usize, usize)>, Fail> {
    let d = diagnostics(&em.src);
    let obs = json!({"non_exhaustive": d.non_exhaustive, "unreachable_lines": d.unreachable_lines, "other_errors": d.other_errors, "internal": d.internal, "panic": d.panic});
    if let Some(p) = &d.panic {
        return Err(mk(&format!("compiler-panic:{}", mask_digits(p)), format!("the compiler panicked while analysing the match: {p}"), obs));
    }
    if !d.internal.is_empty() {
        return Err(mk(&format!("internal-error:{}", mask_digits(&d.internal[0])), format!("internal compiler error while analysing the match: {}", d.internal[0]), obs));
    }
    if !d.other_errors.is_empty() {
        rep.class("generator_rejected");
        rep.sample(|| json!({"generator_rejected": d.other_errors, "src": em.src}));
        return Ok(None);
    }
    let n_arms = arms.len();
    // exhaustiveness
    let reported = !d.non_exhaustive.is_empty();
    if reported && t.uncovered.is_empty() {
        return Err(mk("exhaustive-match-rejected", format!("every one of the {} values is matched by some arm, but the compiler reports missing patterns {}", t.space, d.non_exhaustive[0]), obs));
    }
    if !reported && !t.uncovered.is_empty() {
        let v = &t.values[t.uncovered[0]];
        return Err(mk("non-exhaustive-match-accepted", format!("{} of {} values are matched by no arm (e.g. {}), but the compiler accepts the match", t.uncovered.len(), t.space, v.render()), obs));
    }
    // witnesses
    let mut nw = 0;
    let mut nexact = 0;
    if reported {
        let unc: BTreeSet<usize> = t.uncovered.iter().copied().collect();
        for wtxt in split_missing(&d.non_exhaustive[0]) {
            nw += 1;
            let w = match parse_witness(&wtxt) {
                Ok(w) => w,
                Err(e) => return Err(mk("witness-unparsable", format!("witness `{wtxt}` is not a pattern: {e}"), obs)),
            };
            let mut hits_uncovered = 0usize;
            let mut hits_covered = 0usize;
            for (vi, v) in t.values.iter().enumerate() {
                match w.denotes(&c.decls, &c.ty, v) {
                    Ok(true) => {
                        if unc.contains(&vi) {
                            hits_uncovered += 1
                        } else {
                            hits_covered += 1
                        }
                    }
                    Ok(false) => {}
                    Err(e) => return Err(mk("witness-ill-typed", format!("witness `{wtxt}` is not a pattern of the scrutinee type {}: {e}", c.decls.ty_str(&c.ty)), obs)),
                }
            }
            if hits_uncovered == 0 {
                return Err(mk("witness-is-covered", format!("witness `{wtxt}` denotes {hits_covered} values, all of them matched by some arm"), obs));
            }
            if hits_covered > 0 {
                return Err(mk("witness-partly-covered", format!("witness `{wtxt}` denotes {hits_uncovered} uncovered values but also {hits_covered} values that are matched by some arm"), obs));
            }
            nexact += 1;
        }
    }
    // reachability
    let warned: BTreeSet<usize> = d.unreachable_lines.iter().filter_map(|l| em.arm_line.iter().position(|x| x == l)).collect();
    if warned.len() != d.unreachable_lines.iter().collect::<BTreeSet<_>>().len() {
        return Err(mk("unreachable-warning-not-on-an-arm", format!("an unreachable-arm warning points to a line that is not a match arm: {:?}", d.unreachable_lines), obs));
    }
    for i in 0..n_arms {
        let dead = t.cover[i] == 0;
        if dead && !warned.contains(&i) {
            return Err(mk("unreachable-arm-not-warned", format!("arm {i} `{}` matches no value left by the earlier arms, but there is no unreachable-arm warning for it", arms[i].render()), obs));
        }
        if !dead && warned.contains(&i) {
            return Err(mk("reachable-arm-warned", format!("arm {i} `{}` is the first match for {} values, but the compiler warns that it is unreachable", arms[i].render(), t.cover[i]), obs));
        }
    }
    Ok(Some((nw, nexact)))
}

/// values to execute: every value if the space is small, else per arm the first, last and a few spread values
fn pick_values(t: &Truth) -> Vec<usize> {
    if t.space <= 40 {
        return (0..t.space).collect();
    }
    let n_arms = t.cover.len();
    let mut per: Vec<Vec<usize>> = vec![vec![]; n_arms + 1];
    for (vi, f) in t.first.iter().enumerate() {
        per[f.unwrap_or(n_arms)].push(vi);
    }
    let mut out = BTreeSet::new();
    for vs in &per {
        if vs.is_empty() {
            continue;
        }
        let k = 6.min(vs.len());
        for j in 0..k {
            out.insert(vs[j * (vs.len() - 1) / (k - 1).max(1)]);
        }
    }
    out.into_iter().collect()
}

fn expected_result(c: &Case, em: &Emitted, arms: &[Pat], v: &Val) -> Option<u64> {
    let mut b = vec![];
    for (i, a) in arms.iter().enumerate() {
        b.clear();
        if a.matches(v, &mut b) {
            let mut r = i as u64;
            if let Some((name, _)) = &em.arm_bind[i] {
                let val = b.iter().find(|(n, _)| n == name).map(|(_, v)| v.clone());
                r += 16 * match val {
                    Some(Val::U8(n)) => n as u64,
                    Some(Val::Bool(true)) => 1,
                    Some(Val::Bool(false)) => 2,
                    _ => return None,
                };
            }
            let _ = c;
            return Some(r);
        }
    }
    None
}

pub fn eval_case(tape: &[u16], rep: &Report, run_time: bool) -> Result<Option<CaseStats>, Fail> {
    let c = generate(tape);
    let t = brute_force(&c);
    let em = c.emit(false);
    let mk = |sig: &str, summary: String, obs: Value| -> Fail {
        (
            sig.to_string(),
            summary.clone(),
            json!({"tape": tape, "src": em.src, "type": c.decls.ty_str(&c.ty), "arms": c.arms.iter().map(|a| a.render()).collect::<Vec<_>>(),
                   "brute_force": {"space": t.space, "first_match_counts": t.cover, "uncovered": t.uncovered.len(),
                                    "uncovered_examples": t.uncovered.iter().take(5).map(|i| t.values[*i].render()).collect::<Vec<_>>()},
                   "compiler": obs, "detail": summary}),
        )
    };
    let Some((nw, nexact)) = check_diagnostics(&c, &em, &c.arms, &t, rep, &mk)? else { return Ok(None) };
    let exhaustive = t.uncovered.is_empty();
    let unreachable = t.cover.iter().filter(|x| **x == 0).count();
    let mut runs = 0;
    if run_time {
        // a non-exhaustive match is made runnable by a final catch-all arm (and its diagnostics are checked again)
        let (em2, arms2, t2);
        let (emr, armsr, tr) = if exhaustive {
            (&em, &c.arms, &t)
        } else {
            let mut c2 = c.clone();
            c2.arms.push(Pat::Wild);
            t2 = brute_force(&c2);
            em2 = c.emit(true);
            arms2 = c2.arms.clone();
            let mk2 = |sig: &str, summary: String, obs: Value| -> Fail {
                (format!("{sig}"), summary.clone(), json!({"tape": tape, "src": em2.src, "with_final_catch_all": true, "compiler": obs, "detail": summary}))
            };
            if check_diagnostics(&c2, &em2, &arms2, &t2, rep, &mk2)?.is_none() {
                return Ok(None);
            }
            (&em2, &arms2, &t2)
        };
        let mut codes = vec![];
        let tb = std::time::Instant::now();
        for (lvl, opt) in [("O0", OptLevel::Opt0), ("O1", OptLevel::Opt1)] {
            match crate::watch::watched(&emr.src, || with_fastc(400, |fc| catch(|| fc.compile(&emr.src, opt)))) {
                Ok(Ok(cd)) => codes.push((lvl, cd.bytecode)),
                Ok(Err(f)) => {
                    if f.internal && f.stage != "ast" {
                        // an internal error of IR generation / optimisation / code generation is C17's subject, not the match analysis':
                        // the case counts with its diagnostics half only
                        rep.class("backend_internal_error(C17)");
                        codes.clear();
                        break;
                    }
                    if f.internal {
                        return Err(mk(&format!("internal-error:{}", mask_digits(f.errors.first().map(|s| s.as_str()).unwrap_or(""))), format!("{lvl} build fails with an internal error: {:?}", f.errors.first()), json!({"src": emr.src})));
                    }
                    rep.class("generator_rejected");
                    rep.sample(|| json!({"generator_rejected": f.errors, "stage": f.stage, "src": emr.src}));
                    return Ok(None);
                }
                Err(p) => {
                    vcore::fastc::forget_thread_fastc();
                    if p.location.contains("match_expression") || p.location.contains("typed_expression") {
                        return Err(mk(&format!("compiler-panic:{}", mask_digits(&format!("{} :: {}", p.location, p.message))), format!("{lvl} build panicked: {} {}", p.location, p.message), json!({"src": emr.src})));
                    }
                    rep.class("backend_panic(C17)");
                    return Ok(None);
                }
                #[allow(unreachable_patterns)]
                Err(p) => return Err(mk(&format!("compiler-panic:{}", mask_digits(&format!("{} :: {}", p.location, p.message))), format!("{lvl} build panicked: {} {}", p.location, p.message), json!({"src": emr.src}))),
            }
        }
        T_BUILD_MS.fetch_add(tb.elapsed().as_millis() as u64, std::sync::atomic::Ordering::Relaxed);
        let tr0 = std::time::Instant::now();
        let _timer = Timer(tr0);
        for vi in pick_values(tr) {
            let v = &tr.values[vi];
            let Some(exp) = expected_result(&c, emr, armsr, v) else { continue };
            let mut data = vec![];
            v.encode(&mut data);
            for (lvl, bc) in &codes {
                let o = exec::run_script(bc, &data);
                runs += 1;
                let got = match &o.end {
                    End::Return(x) => Some(*x),
                    End::ReturnData(d) if d.len() == 8 => Some(u64::from_be_bytes(d[..].try_into().unwrap())),
                    _ => None,
                };
                if got != Some(exp) {
                    let arm = exp % 16;
                    return Err(mk(
                        "wrong-arm-executed",
                        format!("{lvl}: value {} must take arm {arm} (result {exp}), the program ended with {}", v.render(), o.to_json()["end"]),
                        json!({"src": emr.src, "script_data": hex::encode(&data), "value": v.render(), "expected": exp, "outcome": o.to_json(), "level": lvl}),
                    ));
                }
            }
        }
    }
    let nested_or_or = c.arms.iter().any(|a| a.has_or() || a.depth() >= 2 || matches!(a, Pat::Variant(_, _, Some(p)) if **p != Pat::Wild));
    Ok(Some(CaseStats { nontrivial: c.arms.len() >= 3 && nested_or_or, exhaustive, unreachable, runs, witnesses: nw, witnesses_exact: nexact }))
}

struct Timer(std::time::Instant);
impl Drop for Timer {
    fn drop(&mut self) {
        T_RUN_MS.fetch_add(self.0.elapsed().as_millis() as u64, std::sync::atomic::Ordering::Relaxed);
    }
}

fn tape_hash(tape: &[u16]) -> u64 {
    hash64(&tape.iter().flat_map(|x| x.to_be_bytes()).collect::<Vec<u8>>())
}

pub fn run(ctx: &Ctx) {
    let mut ctx = ctx.clone();
    if std::env::var("VERIF_SHRINK").is_err() {
        ctx.shrink_iters = 100;
    }
    let ctx = &ctx;
    let rep = Report::new(
        ctx,
        "proptest tape -> scrutinee type over {bool, u8, enums with <=4 variants (unit or payload), tuples and structs of <=3 of these}, value space <= 4096, and 1-8 match arms \
         (literals, u8 literal or-sets as runs / runs with a hole / boundaries 0 and 255 / full 0..=255 enumerations, consts, enum constructors, nested tuple and struct patterns incl. `..`, \
         or-patterns, wildcards, bindings; built either at random or as an exact partition of the type that is then perturbed by dropping / duplicating / swapping / inserting / merging arms); \
         oracle = brute-force enumeration of the value space: non-exhaustive error iff some value is uncovered, every printed witness parses as a pattern of the scrutinee type and denotes >=1 \
         value and only uncovered values, unreachable-arm warning on arm i iff no value has arm i as first match; run-time: compiled at O0 and O1, executed on the VM for sampled values (all if <=40), result = first matching arm \
         (+16*bound leaf variable); non-trivial = >=3 arms and at least one nested, or- or payload pattern; distinct by sha256 of the tape",
    );
    rep.assume("diagnostics are read from sway_core::compile_to_ast run in process with a pre-compiled std namespace (the path forc takes per package); arms are identified by the line of the warning span");
    rep.assume("u8 is the only integer scrutinee type (its value space can be enumerated); wider integers share the generic Range<T> code but are not generated");
    rep.assume("the surface syntax has no range patterns: ranges only occur in printed witnesses ([a...b], MIN, MAX), which are parsed");
    rep.assume("'the witness it reports is really uncovered' is read as: every printed witness is a pattern of the scrutinee type that denotes at least one value and only values matched by no arm");
    rep.assume("a non-exhaustive match cannot be executed; its run-time half is checked on the same arms followed by a final `_` arm");
    rep.assume("a compilation that does not terminate within 600 s ends the check as inconclusive (exit 2), not as a violation");
    crate::watch::spawn_watchdog("C14", 600);
    corpus_check(&rep);
    let cases = ctx.cases(1500, 40_000);
    let rt_every: u64 = 4;
    let out = run_prop(ctx, 14, cases, tape_strategy, |tape| {
        let h = tape_hash(tape);
        match eval_case(tape, &rep, h % rt_every == 0) {
            Ok(None) => Ok(()),
            Ok(Some(st)) => {
                rep.eval();
                rep.class(if st.exhaustive { "exhaustive" } else { "non-exhaustive" });
                if st.unreachable > 0 {
                    rep.class("with-unreachable-arm");
                }
                if st.runs > 0 {
                    rep.class("executed");
                    rep.class_n("vm_runs", st.runs as u64);
                }
                rep.class_n("witness:total", st.witnesses as u64);
                rep.class_n("witness:exact", st.witnesses_exact as u64);
                if st.nontrivial {
                    rep.nontrivial(h);
                    rep.sample_hashed(h, || {
                        let c = generate(tape);
                        json!({"type": c.decls.ty_str(&c.ty), "decls": c.decls.decl_src(), "arms": c.arms.iter().map(|a| a.render()).collect::<Vec<_>>(), "mode": c.mode})
                    });
                }
                let c = generate(tape);
                rep.class(&format!("mode:{}", c.mode));
                Ok(())
            }
            Err((sig, summary, _)) => Err(format!("{sig}\u{1}{summary}")),
        }
    });
    if let Some((tape, reason)) = out.failure {
        let (sig, summary) = reason.split_once('\u{1}').map(|(a, b)| (a.to_string(), b.to_string())).unwrap_or((reason.clone(), reason.clone()));
        let replay = match eval_case(&tape, &rep, true) {
            Err((_, _, v)) => v,
            _ => json!({"tape": tape}),
        };
        rep.violation(Violation { signature: sig, summary, replay });
    }
    {
        use std::sync::atomic::Ordering::Relaxed;
        rep.set_extra("cpu_ms_by_phase", json!({"diagnostics": T_DIAG_MS.load(Relaxed), "builds_O0_O1": T_BUILD_MS.load(Relaxed), "vm_runs": T_RUN_MS.load(Relaxed), "slowest_diagnostics": T_SLOWEST_DIAG_MS.load(Relaxed)}));
    }
    let ev = rep.evaluations.load(std::sync::atomic::Ordering::Relaxed).max(1);
    if rep.class_count("generator_rejected") * 10 > ev {
        rep.inconclusive("more than 10% of the generated matches were rejected by the compiler for reasons outside the property (generator bug)");
    }
    vcore::fastc::drop_thread_fastc();
    rep.finish();
}

/// regression inputs of confirmed (and repaired) findings: corpus/C14/*.json = source + expected diagnostics + executions
fn corpus_check(rep: &Report) {
    let dir = verif_root().join("corpus/C14");
    for f in walk_files(&dir, ".json") {
        let Some(v) = read_to_string_lossy(&f).and_then(|t| serde_json::from_str::<Value>(&t).ok()) else { continue };
        let Some(src) = v["src"].as_str() else { continue };
        let name = f.file_name().map(|x| x.to_string_lossy().to_string()).unwrap_or_default();
        rep.class("corpus_cases");
        let d = diagnostics(src);
        let want_ne: Vec<String> = v["non_exhaustive"].as_array().map(|a| a.iter().filter_map(|x| x.as_str().map(|s| s.to_string())).collect()).unwrap_or_default();
        let mut want_un: Vec<usize> = v["unreachable_lines"].as_array().map(|a| a.iter().filter_map(|x| x.as_u64().map(|n| n as usize)).collect()).unwrap_or_default();
        want_un.sort();
        let mut got_un = d.unreachable_lines.clone();
        got_un.sort();
        got_un.dedup();
        let mut problems = vec![];
        if d.panic.is_some() || !d.internal.is_empty() || !d.other_errors.is_empty() {
            problems.push(format!("unexpected errors: {:?} {:?} {:?}", d.panic, d.internal, d.other_errors));
        }
        if d.non_exhaustive != want_ne {
            problems.push(format!("missing-pattern reports {:?}, expected {:?}", d.non_exhaustive, want_ne));
        }
        if got_un != want_un {
            problems.push(format!("unreachable-arm warnings on lines {:?}, expected {:?}", got_un, want_un));
        }
        let runs = v["runs"].as_array().cloned().unwrap_or_default();
        if problems.is_empty() && !runs.is_empty() {
            for opt in [OptLevel::Opt0, OptLevel::Opt1] {
                match with_fastc(400, |fc| catch(|| fc.compile(src, opt))) {
                    Ok(Ok(c)) => {
                        for r in &runs {
                            let data = hex::decode(r["data"].as_str().unwrap_or("")).unwrap_or_default();
                            let o = exec::run_script(&c.bytecode, &data);
                            let got = match &o.end {
                                End::Return(x) => Some(*x),
                                End::ReturnData(d) if d.len() == 8 => Some(u64::from_be_bytes(d[..].try_into().unwrap())),
                                _ => None,
                            };
                            if got != r["ret"].as_u64() {
                                problems.push(format!("input {} returns {} instead of {}", r["data"], o.to_json()["end"], r["ret"]));
                            }
                        }
                    }
                    Ok(Err(f)) => problems.push(format!("does not compile: {:?}", f.errors.first())),
                    Err(p) => {
                        vcore::fastc::forget_thread_fastc();
                        problems.push(format!("compiler panic {} {}", p.location, p.message));
                    }
                }
            }
        }
        if !problems.is_empty() {
            rep.violation(Violation { signature: format!("corpus:{name}"), summary: format!("regression input {name}: {}", problems.join("; ")), replay: json!({"corpus_file": f.display().to_string(), "src": src, "problems": problems}) });
        }
    }
}

pub fn dump(args: &[String]) {
    let seed: u64 = args.first().and_then(|s| s.parse().ok()).unwrap_or(1);
    let n: u64 = args.get(1).and_then(|s| s.parse().ok()).unwrap_or(1);
    for k in 0..n {
        let tape = gen_one(seed + k, &tape_strategy());
        let c = generate(&tape);
        let t = brute_force(&c);
        let em = c.emit(false);
        let quiet = args.get(2).is_some();
        if !quiet {
            println!("{}", em.src);
            println!("// mode {} space {} first-match counts {:?} uncovered {}", c.mode, t.space, t.cover, t.uncovered.len());
        }
        let t0 = std::time::Instant::now();
        let d = diagnostics(&em.src);
        let ms = t0.elapsed().as_millis();
        if !quiet {
            println!("// compiler: {:?}", d);
        }
        if !quiet || ms > 200 {
            println!("// seed {} took {} ms, src {} bytes, mode {}", seed + k, ms, em.src.len(), c.mode);
        }
    }
    vcore::fastc::drop_thread_fastc();
    std::process::exit(0);
}

pub fn replay(case: &Value) -> Result<(), String> {
    let tape: Vec<u16> = case["tape"].as_array().ok_or("replay file has no tape")?.iter().map(|x| x.as_u64().unwrap_or(0) as u16).collect();
    let ctx = Ctx::new("C14", "quick");
    let rep = Report::new(&ctx, "replay");
    match eval_case(&tape, &rep, true) {
        Ok(_) => Ok(()),
        Err((sig, summary, _)) => Err(format!("{sig}: {summary}")),
    }
}
