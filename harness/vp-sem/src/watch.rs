//! compile watchdog: a compilation that does not terminate must end the check as inconclusive (exit 2), never hang it
use std::sync::Mutex;
use vcommon::*;

static IN_FLIGHT: Mutex<Vec<(std::thread::ThreadId, std::time::Instant, String)>> = Mutex::new(Vec::new());

pub fn in_flight_set(src: Option<&str>) {
    let id = std::thread::current().id();
    let mut g = IN_FLIGHT.lock().unwrap();
    g.retain(|e| e.0 != id);
    if let Some(s) = src {
        g.push((id, std::time::Instant::now(), s.to_string()));
    }
}
/// run `f` (a compilation of `src`) under the watchdog
pub fn watched<T>(src: &str, f: impl FnOnce() -> T) -> T {
    // creating the thread's compiler (compiling std) is not part of the watched compilation
    vcore::fastc::with_fastc(400, |_| ());
    in_flight_set(Some(src));
    let r = f();
    in_flight_set(None);
    r
}
pub fn spawn_watchdog(prop: &str, secs: u64) {
    let prop = prop.to_string();
    std::thread::spawn(move || loop {
        std::thread::sleep(std::time::Duration::from_secs(5));
        let stuck: Vec<String> = IN_FLIGHT.lock().unwrap().iter().filter(|e| e.1.elapsed().as_secs() >= secs).map(|e| e.2.clone()).collect();
        if let Some(src) = stuck.first() {
            let p = scratch_root().join(format!("stuck-{prop}.sw"));
            let _ = std::fs::write(&p, src);
            eprintln!("INCONCLUSIVE: compiling a generated program has not terminated after {secs} s; source saved to {}", p.display());
            std::process::exit(2);
        }
    });
}
