//! development aid: compile one .sw file in process, print the structured diagnostics, optionally run it
use sway_core::OptLevel;
use sway_types::Spanned;
use vcore::exec;
use vcore::fastc::with_fastc;

pub fn run(args: &[String]) {
    let src = std::fs::read_to_string(&args[0]).expect("read");
    with_fastc(1000, |fc| {
        let (progs, handler, _cfg) = fc.to_ast(&src, OptLevel::Opt0);
        let (errs, warns, _) = handler.consume();
        println!("typed ok: {}", progs.map(|p| p.typed.is_ok()).unwrap_or(false));
        for e in &errs {
            let lc = e.span().start_line_col_one_index();
            println!("ERROR line {}: {:?}", lc.line, e.to_string());
        }
        for w in &warns {
            let lc = w.span.start_line_col_one_index();
            println!("WARN line {}: {}", lc.line, w.warning_content);
        }
        if errs.is_empty() {
            for (name, opt) in [("O0", OptLevel::Opt0), ("O1", OptLevel::Opt1)] {
                match fc.compile(&src, opt) {
                    Ok(c) => {
                        println!("{name}: {} bytes", c.bytecode.len());
                        for d in &args[1..] {
                            let data = hex::decode(d).expect("hex");
                            println!("  run {d}: {}", exec::run_script(&c.bytecode, &data).to_json());
                        }
                        if args.len() == 1 {
                            println!("  run: {}", exec::run_script(&c.bytecode, &[]).to_json());
                        }
                    }
                    Err(f) => println!("{name}: compile failed at {}: {:?}", f.stage, f.errors),
                }
            }
        }
    });
    vcore::fastc::drop_thread_fastc();
    std::process::exit(0);
}

/// development aid: type check many files with one compiler instance and print only the match diagnostics
pub fn run_many(args: &[String]) {
    let list = std::fs::read_to_string(&args[0]).expect("read list");
    for f in list.lines() {
        let Ok(src) = std::fs::read_to_string(f) else { continue };
        let r = with_fastc(100_000, |fc| vcommon::catch(|| fc.to_ast(&src, OptLevel::Opt0)));
        println!("FILE {f}");
        match r {
            Ok((_, handler, _)) => {
                let (errs, warns, _) = handler.consume();
                for e in &errs {
                    let t = e.to_string();
                    if t.contains("Non-exhaustive") || t.contains("Internal compiler error") {
                        println!("  ERROR line {}: {}", e.span().start_line_col_one_index().line, t.lines().next().unwrap_or(""));
                    }
                }
                for w in &warns {
                    let t = w.warning_content.to_string();
                    if t.contains("unreachable") {
                        println!("  WARN line {}: {}", w.span.start_line_col_one_index().line, t);
                    }
                }
            }
            Err(p) => {
                vcore::fastc::forget_thread_fastc();
                println!("  PANIC {} {}", p.location, p.message.lines().next().unwrap_or(""));
            }
        }
    }
    vcore::fastc::drop_thread_fastc();
    std::process::exit(0);
}
