//! C06: compile-time evaluation (const declarations, configurables, optimizer folding) agrees with run-time evaluation.
use crate::c06model::*;
use num_bigint::BigUint;
use num_traits::{One, Zero};
use proptest::prelude::*;
use serde_json::{json, Value};
use std::cell::RefCell;
use std::collections::HashMap;
use std::fmt::Write;
use sway_core::OptLevel;
use vcommon::*;
use vcore::exec::{self, End, Log, Outcome};
use vcore::fastc::{with_fastc, CompileFail};

pub const BATCH: usize = 32;
pub type Words = [u16; 10];

pub fn batch_strategy() -> impl Strategy<Value = Vec<Words>> {
    prop::collection::vec(any::<Words>(), 1..=BATCH)
}

#[derive(Clone, Copy, Debug, PartialEq, Eq)]
pub enum KForm {
    Plain,
    Configurable,
    ViaFn,
    Tuple,
    Struct,
    Array,
    Enum,
    ConstRef,
    Block,
}
const KFORMS: [KForm; 9] = [KForm::Plain, KForm::Configurable, KForm::ViaFn, KForm::Tuple, KForm::Struct, KForm::Array, KForm::Enum, KForm::ConstRef, KForm::Block];
#[derive(Clone, Copy, Debug, PartialEq, Eq)]
pub enum FForm {
    Direct,
    Lets,
    ViaFn,
    Ccp,
    /// narrow results only: `log((e).as_u64())` makes all 64 bits of the folded value observable
    Widen,
}
const FFORMS: [FForm; 5] = [FForm::Direct, FForm::Lets, FForm::ViaFn, FForm::Ccp, FForm::Widen];

#[derive(Clone, Debug)]
pub struct Expr {
    pub t: T,
    pub op: Op,
    pub op_index: usize,
    pub a: BigUint,
    /// second operand (value of type t), or the shift amount
    pub b: BigUint,
    pub k: KForm,
    pub f: FForm,
    /// second stage `(a op b) op2 c`: operator, its index in the operator table, operand / shift amount
    pub second: Option<(Op, usize, BigUint)>,
}

fn expand(w: &Words, salt: u8, bits: u32) -> BigUint {
    let mut bytes = vec![salt];
    for x in w {
        bytes.extend_from_slice(&x.to_be_bytes());
    }
    use sha2::{Digest, Sha256};
    let d = Sha256::digest(&bytes);
    BigUint::from_bytes_be(&d) & ((BigUint::one() << bits) - BigUint::one())
}

fn operand(t: T, class: u16, param: u16, w: &Words, salt: u8) -> BigUint {
    let bits = t.bits();
    let max = t.max();
    let k = idx(param, bits as usize) as u32;
    match idx(class, 12) {
        0 => BigUint::zero(),
        1 => BigUint::one(),
        2 => BigUint::from(2u8),
        3 => max,
        4 => max - BigUint::one(),
        5 => pow2(k),
        6 => pow2(k) - BigUint::one(),
        7 => (pow2(k) + BigUint::one()) & max,
        8 => expand(w, salt, bits),
        9 => BigUint::from(param & 0xff),
        10 => (pow2(bits / 2) + BigUint::from(param % 3)) - BigUint::one(),
        _ => max - pow2(k),
    }
}

pub fn gen_expr(w: &Words) -> Expr {
    let t = ALL_T[idx(w[0], ALL_T.len())];
    let ops = ops_of(t);
    let op_index = idx(w[1], ops.len());
    let op = ops[op_index];
    let a = operand(t, w[2], w[3], w, 1);
    let max = t.max();
    let b = if op.is_shift() {
        let mut amounts = SHIFT_AMOUNTS.to_vec();
        amounts.extend([t.bits() as u64 - 1, t.bits() as u64, t.bits() as u64 + 1]);
        // operand-aware amounts: the highest set bit of `a` lands on / just beyond the top bit (<<) or on / just below bit 0 (>>)
        if !a.is_zero() {
            let p = a.bits() - 1;
            let w_ = t.bits() as u64;
            if op == Op::Lsh {
                amounts.extend([(w_ - 1).saturating_sub(p), w_.saturating_sub(p), (w_ + 1).saturating_sub(p), (w_ - 1).saturating_sub(p), w_.saturating_sub(p)]);
            } else {
                amounts.extend([p.saturating_sub(1), p, p + 1]);
            }
        }
        BigUint::from(amounts[idx(w[4], amounts.len())])
    } else {
        match idx(w[4], 16) {
            12 => a.clone(),
            13 | 14 | 15 => {
                // operator-aware neighbour of the boundary between "returns" and "aborts"
                let d = BigUint::from(w[5] % 3);
                let one = BigUint::one();
                match op {
                    Op::Add => ((&max - &a) + &d).saturating_sub_one(&one) & &max,
                    Op::Sub | Op::Lt | Op::Gt | Op::Le | Op::Ge | Op::Eq | Op::Ne => ((&a + &d).saturating_sub_one(&one)) & &max,
                    Op::Mul => {
                        if a.is_zero() {
                            d
                        } else {
                            ((&max / &a) + &d).saturating_sub_one(&one) & &max
                        }
                    }
                    Op::Div | Op::Mod => d,
                    _ => operand(t, w[5], w[6], w, 2),
                }
            }
            c => operand(t, c as u16 * 4096 + 100, w[5], w, 2),
        }
    };
    let mut e = Expr { t, op, op_index, a, b, k: KFORMS[idx(w[8], KFORMS.len())], f: FFORMS[idx(w[9], FFORMS.len())], second: None };
    // chains: the result of a T -> T operator feeds a second operator
    let t_to_t = !op.is_cmp() && !matches!(op, Op::Conv(_));
    if t_to_t && w[7] % 4 == 1 {
        let cands: Vec<(usize, Op)> = ops.iter().copied().enumerate().filter(|(_, o)| !matches!(o, Op::Conv(_))).collect();
        let (i2, op2) = cands[idx(w[6], cands.len())];
        let c = if op2.is_shift() {
            BigUint::from(SHIFT_AMOUNTS[idx(w[5], SHIFT_AMOUNTS.len())])
        } else {
            operand(t, w[5], w[3], w, 3)
        };
        e.second = Some((op2, i2, c));
        // forms that spell the operator out themselves are not used for chains
        if matches!(e.k, KForm::ViaFn | KForm::ConstRef | KForm::Block) {
            e.k = KForm::Plain;
        }
        e.f = if e.f == FForm::Widen { FForm::Widen } else { FForm::Direct };
    }
    if e.f == FForm::Widen && !matches!(e.rtype().as_str(), "u8" | "u16" | "u32") {
        e.f = FForm::Direct;
    }
    e
}

trait SatSub {
    fn saturating_sub_one(self, one: &BigUint) -> BigUint;
}
impl SatSub for BigUint {
    fn saturating_sub_one(self, one: &BigUint) -> BigUint {
        if self.is_zero() {
            self
        } else {
            self - one
        }
    }
}

impl Expr {
    pub fn b_lit(&self) -> String {
        if self.op.is_shift() {
            format!("{}", self.b)
        } else {
            self.t.lit(&self.b)
        }
    }
    pub fn src(&self) -> String {
        let first = self.op.render(&self.t.lit(&self.a), &self.b_lit());
        match &self.second {
            None => first,
            Some((op2, _, c)) => {
                let c = if op2.is_shift() { format!("{c}") } else { self.t.lit(c) };
                op2.render(&format!("({first})"), &c)
            }
        }
    }
    pub fn rtype(&self) -> String {
        match &self.second {
            None => result_type(self.t, self.op),
            Some((op2, _, _)) => result_type(self.t, *op2),
        }
    }
    /// big-integer model of the whole expression (triage only)
    pub fn model(&self) -> Option<Vec<u8>> {
        let r1 = model(self.t, self.op, &self.a, &self.b)?;
        match &self.second {
            None => Some(r1),
            Some((op2, _, c)) => model(self.t, *op2, &BigUint::from_bytes_be(&r1), c),
        }
    }
    pub fn shape(&self) -> String {
        if self.op.is_shift() && self.second.is_none() {
            let s: u64 = (&self.b).try_into().unwrap_or(u64::MAX);
            let w = self.t.bits() as u64;
            return if s >= 64.max(w) { format!("amount>={}", 64.max(w)) } else if s >= w { format!("amount>={w}") } else { "amount<width".into() };
        }
        let chain = if self.second.is_some() { "chain:" } else { "" };
        match self.model() {
            None => format!("{chain}model-aborts"),
            Some(_) => format!("{chain}model-returns"),
        }
    }
    pub fn nontrivial(&self) -> bool {
        if is_boundary(self.t, &self.a) || (!self.op.is_unary() && !self.op.is_shift() && is_boundary(self.t, &self.b)) {
            return true;
        }
        if self.op.is_shift() {
            let s: u64 = (&self.b).try_into().unwrap_or(u64::MAX);
            let w = self.t.bits() as u64;
            return s == 0 || s == 1 || (s + 1 >= w && s <= w + 1) || (63..=65).contains(&s) || (255..=257).contains(&s) || s >= 1 << 32;
        }
        match self.model() {
            Some(bytes) if bytes.len() == self.t.bytes() => is_boundary(self.t, &BigUint::from_bytes_be(&bytes)),
            _ => false,
        }
    }
    pub fn render(&self) -> Value {
        json!({"type": self.t.name(), "expr": self.src(), "const_form": format!("{:?}", self.k), "fold_form": format!("{:?}", self.f)})
    }
}

// ---------------------------------------------------------------------------------------------
// route R: operator table executed with run-time operands

fn table_src(t: T) -> String {
    let tn = t.name();
    let mut s = format!("script;\nfn main(op: u64, a: {tn}, b: {tn}, s: u64) {{\n");
    for (i, op) in ops_of(t).iter().enumerate() {
        let e = if op.is_shift() { op.render("a", "s") } else { op.render("a", "b") };
        let _ = writeln!(s, "    {}if op == {i} {{ log({e}); }}", if i == 0 { "" } else { "else " });
    }
    s.push_str("}\n");
    s
}

thread_local! {
    static TABLES: RefCell<HashMap<T, Option<Vec<u8>>>> = RefCell::new(HashMap::new());
}

fn table(t: T) -> Option<Vec<u8>> {
    TABLES.with(|m| {
        if let Some(x) = m.borrow().get(&t) {
            return x.clone();
        }
        let src = table_src(t);
        let bc = crate::watch::watched(&src, || with_fastc(400, |fc| catch(|| fc.compile(&src, OptLevel::Opt0))));
        let bc = match bc {
            Ok(Ok(c)) => Some(c.bytecode),
            Ok(Err(f)) => {
                eprintln!("operator table for {} does not compile: {:?}", t.name(), f.errors);
                None
            }
            Err(p) => {
                vcore::fastc::forget_thread_fastc();
                eprintln!("operator table for {} panicked the compiler: {} {}", t.name(), p.location, p.message);
                None
            }
        };
        m.borrow_mut().insert(t, bc.clone());
        bc
    })
}

#[derive(Clone, Debug, PartialEq, Eq)]
pub enum RunTime {
    Value(Vec<u8>),
    Abort(String),
    Unknown(String),
}

fn first_log(o: &Outcome) -> Option<Vec<u8>> {
    o.logs.iter().find_map(|l| match l {
        Log::LogData { data, .. } => Some(data.clone()),
        Log::Log { ra, .. } => Some(ra.to_be_bytes().to_vec()),
    })
}
fn all_logs(o: &Outcome) -> Vec<Vec<u8>> {
    o.logs.iter().map(|l| match l {
        Log::LogData { data, .. } => data.clone(),
        Log::Log { ra, .. } => ra.to_be_bytes().to_vec(),
    }).collect()
}

fn run_table(t: T, op: Op, op_index: usize, a: &BigUint, b: &BigUint) -> RunTime {
    let Some(bc) = table(t) else { return RunTime::Unknown("operator table did not compile".into()) };
    let mut data = (op_index as u64).to_be_bytes().to_vec();
    data.extend(t.encode(a));
    if op.is_shift() {
        data.extend(t.encode(&BigUint::zero()));
        let s: u64 = b.try_into().unwrap_or(u64::MAX);
        data.extend(s.to_be_bytes());
    } else {
        data.extend(t.encode(b));
        data.extend(0u64.to_be_bytes());
    }
    let o = exec::run_script(&bc, &data);
    match (&o.end, first_log(&o)) {
        (End::Return(_) | End::ReturnData(_), Some(d)) => RunTime::Value(d),
        (End::Revert(c), None) => RunTime::Abort(format!("Revert({c})")),
        (End::Panic(p), None) => RunTime::Abort(format!("Panic({p})")),
        (e, l) => RunTime::Unknown(format!("{e:?} with log {l:?}")),
    }
}

pub fn run_time(e: &Expr) -> RunTime {
    let r1 = run_table(e.t, e.op, e.op_index, &e.a, &e.b);
    match (&e.second, r1) {
        (Some((op2, i2, c)), RunTime::Value(v)) => run_table(e.t, *op2, *i2, &BigUint::from_bytes_be(&v), c),
        (_, r) => r,
    }
}

// ---------------------------------------------------------------------------------------------
// route K: const declarations and configurables

const PRELUDE: &str = "script;\nstruct W<T> { x: T, y: bool }\n";

/// (declarations, configurables, statement) for expression i
fn k_parts(i: usize, e: &Expr) -> (String, String, String) {
    let r = e.rtype();
    let tn = e.t.name();
    let ex = e.src();
    let a = e.t.lit(&e.a);
    let b = e.b_lit();
    let bt = if e.op.is_shift() { "u64" } else { tn };
    let mut decl = String::new();
    let mut conf = String::new();
    match e.k {
        KForm::Plain => {
            let _ = writeln!(decl, "const C{i}: {r} = {ex};");
        }
        KForm::Configurable => {
            let _ = writeln!(conf, "    C{i}: {r} = {ex},");
        }
        KForm::ViaFn => {
            if e.op.is_unary() {
                let _ = writeln!(decl, "fn kf{i}(a: {tn}) -> {r} {{ {} }}\nconst C{i}: {r} = kf{i}({a});", e.op.render("a", ""));
            } else {
                let _ = writeln!(decl, "fn kf{i}(a: {tn}, b: {bt}) -> {r} {{ {} }}\nconst C{i}: {r} = kf{i}({a}, {b});", e.op.render("a", "b"));
            }
        }
        KForm::Tuple => {
            let _ = writeln!(decl, "const C{i}: ({r}, u64) = ({ex}, 7);");
        }
        KForm::Struct => {
            let _ = writeln!(decl, "const C{i}: W<{r}> = W {{ x: {ex}, y: true }};");
        }
        KForm::Array => {
            let _ = writeln!(decl, "const C{i}: [{r}; 2] = [{ex}, {ex}];");
        }
        KForm::Enum => {
            let _ = writeln!(decl, "const C{i}: Option<{r}> = Some({ex});");
        }
        KForm::ConstRef => {
            let _ = writeln!(decl, "const A{i}: {tn} = {a};\nconst C{i}: {r} = {};", e.op.render(&format!("A{i}"), &b));
        }
        KForm::Block => {
            let _ = writeln!(decl, "const C{i}: {r} = {{ let x = {a}; {} }};", e.op.render("x", &b));
        }
    }
    (decl, conf, format!("    log(C{i});\n"))
}

fn k_expected(e: &Expr, r: &[u8]) -> Vec<u8> {
    match e.k {
        KForm::Tuple => [r, &7u64.to_be_bytes()[..]].concat(),
        KForm::Struct => [r, &[1u8][..]].concat(),
        KForm::Array => [r, r].concat(),
        KForm::Enum => [&1u64.to_be_bytes()[..], r].concat(),
        _ => r.to_vec(),
    }
}

pub fn k_program(items: &[(usize, &Expr)]) -> String {
    let mut decl = String::new();
    let mut conf = String::new();
    let mut body = String::new();
    for (i, e) in items {
        let (d, c, s) = k_parts(*i, e);
        decl.push_str(&d);
        conf.push_str(&c);
        body.push_str(&s);
    }
    let mut src = String::from(PRELUDE);
    src.push_str(&decl);
    if !conf.is_empty() {
        let _ = write!(src, "configurable {{\n{conf}}}\n");
    }
    let _ = write!(src, "fn main() {{\n{body}}}\n");
    src
}

// ---------------------------------------------------------------------------------------------
// route F: literals in function bodies, folded by the optimizer at O1

fn f_parts(i: usize, e: &Expr) -> (String, String) {
    let r = e.rtype();
    let tn = e.t.name();
    let a = e.t.lit(&e.a);
    let b = e.b_lit();
    let bt = if e.op.is_shift() { "u64" } else { tn };
    match e.f {
        FForm::Direct | FForm::Ccp => (String::new(), format!("    log({});\n", e.src())),
        FForm::Widen => (String::new(), format!("    log(({}).as_u64());\n", e.src())),
        FForm::Lets => {
            if e.op.is_unary() {
                (String::new(), format!("    let x{i}: {tn} = {a};\n    log({});\n", e.op.render(&format!("x{i}"), "")))
            } else {
                (String::new(), format!("    let x{i}: {tn} = {a};\n    let y{i}: {bt} = {b};\n    log({});\n", e.op.render(&format!("x{i}"), &format!("y{i}"))))
            }
        }
        FForm::ViaFn => {
            if e.op.is_unary() {
                (format!("fn ff{i}(a: {tn}) -> {r} {{ {} }}\n", e.op.render("a", "")), format!("    log(ff{i}({a}));\n"))
            } else {
                (format!("fn ff{i}(a: {tn}, b: {bt}) -> {r} {{ {} }}\n", e.op.render("a", "b")), format!("    log(ff{i}({a}, {b}));\n"))
            }
        }
    }
}

fn f_expected(e: &Expr, r: &[u8]) -> Vec<u8> {
    if e.f == FForm::Widen {
        let mut out = vec![0u8; 8usize.saturating_sub(r.len())];
        out.extend_from_slice(r);
        out
    } else {
        r.to_vec()
    }
}

pub fn f_program(items: &[(usize, &Expr)]) -> String {
    let mut decl = String::new();
    let mut body = String::new();
    for (i, e) in items {
        let (d, s) = f_parts(*i, e);
        decl.push_str(&d);
        body.push_str(&s);
    }
    format!("script;\n{decl}fn main() {{\n{body}}}\n")
}

/// conditional constant propagation: inside `if p == A { .. }` the optimizer replaces p by A and folds
pub fn ccp_program(items: &[(usize, &Expr)]) -> (String, Vec<u8>) {
    let mut params = vec![];
    let mut body = String::new();
    let mut data = vec![];
    for (i, e) in items {
        let tn = e.t.name();
        params.push(format!("p{i}: {tn}"));
        let a = e.t.lit(&e.a);
        let _ = writeln!(body, "    if p{i} == {a} {{ log({}); }} else {{ log(p{i}); }}", e.op.render(&format!("p{i}"), &e.b_lit()));
        data.extend(e.t.encode(&e.a));
    }
    (format!("script;\nfn main({}) {{\n{body}}}\n", params.join(", ")), data)
}


// ---------------------------------------------------------------------------------------------
// did the fold happen? arithmetic / comparison instructions left in the O1 IR of the F program, compared with the same
// program in which every expression is replaced by the literal of its run-time value

fn literal_of(e: &Expr, r: &[u8]) -> Option<String> {
    let rt = e.rtype();
    let num = |t: &str, b: &[u8]| -> Option<String> {
        let v = BigUint::from_bytes_be(b);
        Some(match t {
            "u8" => T::U8.lit(&v),
            "u16" => T::U16.lit(&v),
            "u32" => T::U32.lit(&v),
            "u64" => T::U64.lit(&v),
            "u256" => T::U256.lit(&v),
            "b256" => T::B256.lit(&v),
            "bool" => (if v.is_zero() { "false" } else { "true" }).to_string(),
            _ => return None,
        })
    };
    if let Some(inner) = rt.strip_prefix("Option<").and_then(|x| x.strip_suffix('>')) {
        if r.len() < 8 {
            return None;
        }
        return if r[..8] == 0u64.to_be_bytes() { Some("None".into()) } else { num(inner, &r[8..]).map(|x| format!("Some({x})")) };
    }
    num(&rt, r)
}

fn o1_op_count(src: &str) -> Option<usize> {
    use sway_ir::{create_o1_pass_group, register_known_passes, InstOp, PassManager};
    let r = crate::watch::watched(src, || {
        with_fastc(400, |fc| {
            catch(|| {
                fc.with_ir(src, |ir, _, _| {
                    let mut pm = PassManager::default();
                    register_known_passes(&mut pm);
                    let g = create_o1_pass_group();
                    if pm.run(ir, &g, &Default::default()).is_err() {
                        return (None, false);
                    }
                    let mut n = 0usize;
                    for m in ir.module_iter() {
                        for f in m.function_iter(ir) {
                            for (_, v) in f.instruction_iter(ir) {
                                if let Some(i) = v.get_instruction(ir) {
                                    if matches!(i.op, InstOp::BinaryOp { .. } | InstOp::UnaryOp { .. } | InstOp::Cmp(..)) {
                                        n += 1;
                                    }
                                }
                            }
                        }
                    }
                    (Some(n), false)
                })
            })
        })
    });
    match r {
        Ok(Ok((n, _))) => n,
        Ok(Err(_)) => None,
        Err(_) => {
            vcore::fastc::forget_thread_fastc();
            None
        }
    }
}

/// Some(true) = the O1 IR of the program with the expressions has exactly as many arithmetic / comparison instructions as
/// the program with the literal results (everything was folded)
fn fold_happened(items: &[(usize, &Expr, Vec<u8>)]) -> Option<bool> {
    let plain: Vec<(usize, &Expr)> = items.iter().map(|(i, e, _)| (*i, *e)).collect();
    let src = f_program(&plain);
    let mut body = String::new();
    for (_, e, r) in items {
        let lit = literal_of(e, r)?;
        let _ = writeln!(body, "    log({lit});");
    }
    let baseline = format!("script;\nfn main() {{\n{body}}}\n");
    Some(o1_op_count(&src)? == o1_op_count(&baseline)?)
}

// ---------------------------------------------------------------------------------------------

pub enum Built {
    Code(Vec<u8>),
    Declined(CompileFail),
    Crashed(String),
}
pub fn build(src: &str, opt: OptLevel) -> Built {
    match crate::watch::watched(src, || with_fastc(400, |fc| catch(|| fc.compile(src, opt)))) {
        Ok(Ok(c)) => Built::Code(c.bytecode),
        Ok(Err(f)) if f.internal => Built::Crashed(format!("internal compiler error at stage {}: {}", f.stage, f.errors.first().cloned().unwrap_or_default())),
        Ok(Err(f)) => Built::Declined(f),
        Err(p) => {
            vcore::fastc::forget_thread_fastc();
            Built::Crashed(format!("compiler panic at {}: {}", p.location, p.message))
        }
    }
}

pub type Fail = (String, String, Value);

fn mask(s: &str) -> String {
    let mut out = String::new();
    for c in s.chars().take(100) {
        if c.is_ascii_digit() {
            if !out.ends_with('#') {
                out.push('#');
            }
        } else if c != '\n' {
            out.push(c);
        }
    }
    out
}

fn fail(route: &str, e: &Expr, what: &str, detail: String, src: &str, extra: Value) -> Fail {
    let opn = match &e.second {
        None => e.op.name().to_string(),
        Some((op2, _, _)) => format!("{}+{}", e.op.name(), op2.name()),
    };
    let sig = format!("{route}:{}:{}:{}:{what}", e.t.name(), opn, e.shape());
    let m = e.model().map(hex::encode);
    (
        sig,
        format!("`{}` ({}): {detail}", e.src(), e.t.name()),
        json!({"expr": e.render(), "detail": detail, "program": src, "model_says": m, "observed": extra}),
    )
}

#[derive(Default)]
pub struct BatchStats {
    pub r_values: usize,
    pub r_aborts: usize,
    pub k_ok: usize,
    pub k_declined: usize,
    pub f_ok: usize,
    pub ccp_ok: usize,
    pub abort_checked: usize,
    pub compiles: usize,
}

/// indices i of the declarations `C{i}` / `A{i}` / `kf{i}` named by the source lines quoted in the diagnostics
fn declined_indices(f: &CompileFail) -> Vec<usize> {
    let mut out = vec![];
    for e in &f.errors {
        let Some(pos) = e.find(" @ line ") else { continue };
        let Some(q) = e[pos..].find('`') else { continue };
        let line = &e[pos + q + 1..];
        let bytes = line.as_bytes();
        let mut k = 0;
        while k < bytes.len() {
            let rest = &line[k..];
            let id_start = k == 0 || !(bytes[k - 1].is_ascii_alphanumeric() || bytes[k - 1] == b'_');
            let skip = if rest.starts_with("kf") { 2 } else if rest.starts_with('C') || rest.starts_with('A') { 1 } else { 0 };
            if id_start && skip > 0 {
                let digits: String = rest[skip..].chars().take_while(|c| c.is_ascii_digit()).collect();
                let after = rest[skip + digits.len()..].chars().next();
                if !digits.is_empty() && matches!(after, Some(':') | Some('(') | Some(' ')) {
                    if let Ok(i) = digits.parse() {
                        out.push(i);
                    }
                    break;
                }
            }
            k += 1;
        }
    }
    out
}

/// K route on a set of expressions that return at run time: every logged constant equals the run-time value; a compile
/// error is isolated by bisection and accepted as "declined" for single expressions.
fn k_check(items: &[(usize, &Expr, Vec<u8>)], rep: &Report, st: &mut BatchStats) -> Result<(), Fail> {
    if items.is_empty() {
        return Ok(());
    }
    let plain: Vec<(usize, &Expr)> = items.iter().map(|(i, e, _)| (*i, *e)).collect();
    let src = k_program(&plain);
    st.compiles += 1;
    match build(&src, OptLevel::Opt0) {
        Built::Code(bc) => {
            let o = exec::run_script(&bc, &[]);
            let logs = all_logs(&o);
            for (k, (_, e, r)) in items.iter().enumerate() {
                let want = k_expected(e, r);
                match logs.get(k) {
                    Some(got) if *got == want => {
                        st.k_ok += 1;
                        rep.class(&format!("K:{:?}:agrees", e.k));
                    }
                    Some(got) => {
                        return Err(fail(&format!("K({:?})", e.k), e, "value-differs", format!("the compile-time value is {} but run-time evaluation gives {}", hex::encode(got), hex::encode(&want)), &src, json!({"logs": logs.iter().map(hex::encode).collect::<Vec<_>>(), "end": o.to_json()["end"]})));
                    }
                    None => {
                        return Err(fail(&format!("K({:?})", e.k), e, "no-value", format!("the program with the constant ended with {} before logging it; run-time evaluation gives {}", o.to_json()["end"], hex::encode(&want)), &src, o.to_json()));
                    }
                }
            }
            Ok(())
        }
        Built::Crashed(msg) => {
            if items.len() == 1 {
                let e = items[0].1;
                return Err(fail(&format!("K({:?})", e.k), e, &format!("compiler-crash:{}", mask(&msg)), format!("evaluating the constant crashes the compiler instead of giving a value or a diagnostic: {msg}"), &src, json!(msg)));
            }
            let (l, r) = items.split_at(items.len() / 2);
            k_check(l, rep, st)?;
            k_check(r, rep, st)
        }
        Built::Declined(f) => {
            let mut declined = |e: &Expr| {
                st.k_declined += 1;
                rep.class(&format!("K:declined:{}:{}", e.t.name(), e.op.name()));
                rep.class(&format!("K:declined:form:{:?}", e.k));
            };
            if items.len() == 1 {
                declined(items[0].1);
                return Ok(());
            }
            // the diagnostics name the declarations that could not be evaluated: drop exactly those and check the others again
            let named = declined_indices(&f);
            let (out, keep): (Vec<_>, Vec<_>) = items.iter().cloned().partition(|(i, _, _)| named.contains(i));
            if !out.is_empty() {
                for (_, e, _) in &out {
                    declined(e);
                }
                return k_check(&keep, rep, st);
            }
            let (l, r) = items.split_at(items.len() / 2);
            k_check(l, rep, st)?;
            k_check(r, rep, st)
        }
    }
}

fn f_check(items: &[(usize, &Expr, Vec<u8>)], rep: &Report, st: &mut BatchStats) -> Result<(), Fail> {
    if items.is_empty() {
        return Ok(());
    }
    let plain: Vec<(usize, &Expr)> = items.iter().map(|(i, e, _)| (*i, *e)).collect();
    let src = f_program(&plain);
    for (lvl, opt) in [("O1", OptLevel::Opt1), ("O0", OptLevel::Opt0)] {
        st.compiles += 1;
        match build(&src, opt) {
            Built::Code(bc) => {
                let o = exec::run_script(&bc, &[]);
                let logs = all_logs(&o);
                for (k, (_, e, r)) in items.iter().enumerate() {
                    let r = &f_expected(e, r);
                    match logs.get(k) {
                        Some(got) if got == r => {
                            if lvl == "O1" {
                                st.f_ok += 1;
                                rep.class(&format!("F:{:?}:agrees", e.f));
                            }
                        }
                        Some(got) => return Err(fail(&format!("F({lvl},{:?})", e.f), e, "value-differs", format!("the {lvl} build logs {} but evaluation from run-time operands gives {}", hex::encode(got), hex::encode(r)), &src, o.to_json())),
                        None => return Err(fail(&format!("F({lvl},{:?})", e.f), e, "no-value", format!("the {lvl} build ended with {} before logging the value; evaluation from run-time operands gives {}", o.to_json()["end"], hex::encode(r)), &src, o.to_json())),
                    }
                }
            }
            Built::Crashed(msg) => {
                if items.len() == 1 {
                    let e = items[0].1;
                    return Err(fail(&format!("F({lvl},{:?})", e.f), e, &format!("compiler-crash:{}", mask(&msg)), format!("the {lvl} build crashes the compiler: {msg}"), &src, json!(msg)));
                }
                let (l, r) = items.split_at(items.len() / 2);
                f_check(l, rep, st)?;
                return f_check(r, rep, st);
            }
            Built::Declined(f) => {
                // an expression on literals that is valid with run-time operands must compile
                if items.len() == 1 {
                    let e = items[0].1;
                    rep.class(&format!("F:rejected:{}:{}", e.t.name(), e.op.name()));
                    rep.sample(|| json!({"F_rejected": f.errors, "src": src}));
                    return Ok(());
                }
                let (l, r) = items.split_at(items.len() / 2);
                f_check(l, rep, st)?;
                return f_check(r, rep, st);
            }
        }
    }
    Ok(())
}

fn ccp_check(items: &[(usize, &Expr, Vec<u8>)], rep: &Report, st: &mut BatchStats) -> Result<(), Fail> {
    if items.is_empty() {
        return Ok(());
    }
    let plain: Vec<(usize, &Expr)> = items.iter().map(|(i, e, _)| (*i, *e)).collect();
    let (src, data) = ccp_program(&plain);
    st.compiles += 1;
    match build(&src, OptLevel::Opt1) {
        Built::Code(bc) => {
            let o = exec::run_script(&bc, &data);
            let logs = all_logs(&o);
            for (k, (_, e, r)) in items.iter().enumerate() {
                match logs.get(k) {
                    Some(got) if got == r => {
                        st.ccp_ok += 1;
                        rep.class("F:Ccp:agrees");
                    }
                    Some(got) => return Err(fail("F(O1,ccp)", e, "value-differs", format!("inside `if p == A` the O1 build logs {} but evaluation from run-time operands gives {}", hex::encode(got), hex::encode(r)), &src, o.to_json())),
                    None => return Err(fail("F(O1,ccp)", e, "no-value", format!("the O1 build ended with {} before logging the value; evaluation from run-time operands gives {}", o.to_json()["end"], hex::encode(r)), &src, o.to_json())),
                }
            }
            Ok(())
        }
        Built::Crashed(msg) if items.len() == 1 => {
            let e = items[0].1;
            Err(fail("F(O1,ccp)", e, &format!("compiler-crash:{}", mask(&msg)), format!("the O1 build crashes the compiler: {msg}"), &src, json!(msg)))
        }
        Built::Declined(f) if items.len() == 1 => {
            rep.class("F:ccp-rejected");
            rep.sample(|| json!({"ccp_rejected": f.errors, "src": src}));
            Ok(())
        }
        _ => {
            let (l, r) = items.split_at(items.len() / 2);
            ccp_check(l, rep, st)?;
            ccp_check(r, rep, st)
        }
    }
}

/// An expression that aborts at run time: the const declaration must be a compile error, and the folded program must abort too.
fn abort_check(i: usize, e: &Expr, why: &str, rep: &Report, st: &mut BatchStats) -> Result<(), Fail> {
    st.abort_checked += 1;
    let src = k_program(&[(i, e)]);
    st.compiles += 1;
    match build(&src, OptLevel::Opt0) {
        Built::Declined(_) => rep.class(&format!("K:aborting:{:?}:compile-error", e.k)),
        Built::Crashed(msg) => {
            return Err(fail(&format!("K({:?})", e.k), e, &format!("compiler-crash:{}", mask(&msg)), format!("run-time evaluation aborts ({why}); evaluating the constant crashes the compiler instead of giving a diagnostic: {msg}"), &src, json!(msg)));
        }
        Built::Code(bc) => {
            let o = exec::run_script(&bc, &[]);
            if let Some(v) = first_log(&o) {
                return Err(fail(&format!("K({:?})", e.k), e, "value-substituted", format!("run-time evaluation aborts ({why}) but the compiler evaluated the constant to {}", hex::encode(v)), &src, o.to_json()));
            }
            rep.class(&format!("K:aborting:{:?}:aborts-at-run-time", e.k));
        }
    }
    let src = f_program(&[(i, e)]);
    for (lvl, opt) in [("O1", OptLevel::Opt1), ("O0", OptLevel::Opt0)] {
        st.compiles += 1;
        match build(&src, opt) {
            Built::Code(bc) => {
                let o = exec::run_script(&bc, &[]);
                if let Some(v) = first_log(&o) {
                    return Err(fail(&format!("F({lvl},{:?})", e.f), e, "value-substituted", format!("evaluation from run-time operands aborts ({why}) but the {lvl} build of the same expression on literals yields {}", hex::encode(v)), &src, o.to_json()));
                }
                if !o.is_abort() {
                    return Err(fail(&format!("F({lvl},{:?})", e.f), e, "no-abort", format!("evaluation from run-time operands aborts ({why}) but the {lvl} build on literals ends with {}", o.to_json()["end"]), &src, o.to_json()));
                }
                rep.class(&format!("F:aborting:{lvl}:aborts"));
            }
            Built::Declined(_) => rep.class(&format!("F:aborting:{lvl}:compile-error")),
            Built::Crashed(msg) => {
                return Err(fail(&format!("F({lvl},{:?})", e.f), e, &format!("compiler-crash:{}", mask(&msg)), format!("the {lvl} build crashes the compiler: {msg}"), &src, json!(msg)));
            }
        }
    }
    Ok(())
}

/// known-finding shapes excluded from the search (counted); None = not excluded
pub fn excluded(_e: &Expr) -> Option<&'static str> {
    None
}

pub fn eval_batch(batch: &[Words], rep: &Report) -> Result<BatchStats, Fail> {
    let check_fold = batch.first().map(|w| w[7] % 3 == 0).unwrap_or(false);
    let mut st = BatchStats::default();
    let exprs: Vec<Expr> = batch.iter().map(gen_expr).collect();
    let mut ok: Vec<(usize, &Expr, Vec<u8>)> = vec![];
    let mut aborting: Vec<(usize, &Expr, String)> = vec![];
    for (i, e) in exprs.iter().enumerate() {
        if let Some(x) = excluded(e) {
            rep.class(&format!("excluded:{x}"));
            continue;
        }
        match run_time(e) {
            RunTime::Value(v) => {
                st.r_values += 1;
                // third voter (triage only)
                match e.model() {
                    Some(m) if m == v => rep.class("R:value(model agrees)"),
                    Some(_) => rep.class(&format!("R:value(model differs):{}:{}:{}", e.t.name(), e.op.name(), e.shape())),
                    None => rep.class(&format!("R:value(model aborts):{}:{}", e.t.name(), e.op.name())),
                }
                ok.push((i, e, v));
            }
            RunTime::Abort(why) => {
                st.r_aborts += 1;
                rep.class("R:aborts");
                aborting.push((i, e, why));
            }
            RunTime::Unknown(why) => {
                rep.class("R:unknown");
                rep.sample(|| json!({"R_unknown": why, "expr": e.render()}));
            }
        }
    }
    k_check(&ok, rep, &mut st)?;
    let (ccp, plain): (Vec<_>, Vec<_>) = ok.iter().cloned().partition(|(_, e, _)| e.f == FForm::Ccp && !e.op.is_unary());
    f_check(&plain, rep, &mut st)?;
    if check_fold && !plain.is_empty() {
        // evidence that the optimizer really folds: one expression of the batch, measured alone
        let one = &plain[idx(batch[0][6], plain.len())];
        let e = one.1;
        let kind = if e.op.is_shift() { "shift" } else if e.op.is_cmp() { "cmp" } else if matches!(e.op, Op::Conv(_)) { "conv" } else if matches!(e.op, Op::And | Op::Or | Op::Xor | Op::Not) { "bitwise" } else { "arith" };
        let width = if e.t.bits() < 64 { "narrow" } else if e.t.bits() == 64 { "u64" } else { "256-bit" };
        match fold_happened(std::slice::from_ref(one)) {
            Some(true) => rep.class(&format!("F:O1-IR:{kind}:{width}:folded")),
            Some(false) => rep.class(&format!("F:O1-IR:{kind}:{width}:instruction-left")),
            None => rep.class("F:O1-IR:not-measured"),
        }
    }
    for chunk in ccp.chunks(8) {
        ccp_check(chunk, rep, &mut st)?;
    }
    for (i, e, why) in aborting.iter().take(2) {
        abort_check(*i, e, why, rep, &mut st)?;
    }
    Ok(st)
}

pub fn run(ctx: &Ctx) {
    let mut ctx = ctx.clone();
    if std::env::var("VERIF_SHRINK").is_err() {
        ctx.shrink_iters = 40;
    }
    let ctx = &ctx;
    let rep = Report::new(
        ctx,
        "proptest batch of <=32 expressions (type in u8 u16 u32 u64 u256 b256; operator in + - * / % & | ^ << >> ! == != < > <= >= and the std conversions as_uN / try_as_uN / as_u256 / as_b256; \
         operands from the boundary pool 0,1,2,max,max-1,2^k,2^k+-1,max-2^k, operator-aware neighbours of the overflow / underflow / division-by-zero boundary, random values; shift amounts around the width, 63..65, 255..257, 2^32, u64::MAX); \
         three routes: (R) the operator applied to run-time operands (operator-table script, operands as script data) is the reference; (K) the same expression as `const` / `configurable` initializer \
         (plain, via a helper function, inside tuple / struct / array / enum aggregates, referencing another const, in a block) read back by logging; (F) the same expression on literals in a function body \
         (direct, through lets, through a helper function, under `if p == A` for conditional constant propagation) built at O1 and O0; oracle: R returns v => K and F yield exactly v or decline with an ordinary diagnostic; \
         R aborts => K is a compile error (never a value) and F aborts too; non-trivial = an operand or the result is a boundary value or the shift amount is at a width boundary; distinct by (type, operator, operands, forms)",
    );
    rep.assume("run-time reference = FuelVM execution of the O0 build of an operator-table script whose operands arrive as script data; a Rust big-integer model is a third voter used for classification only");
    rep.assume("programs are compiled in process through sway_core::{compile_to_ast, ast_to_asm, asm_to_bytecode} with a pre-compiled std namespace (the path forc takes per package)");
    rep.assume("a compile-time evaluation that ends in an ordinary compile error ('Could not evaluate initializer to a const declaration') counts as declined, which the property allows");
    rep.assume("at most 2 run-time-aborting expressions per batch are compiled singly (cost); all returning expressions are checked");
    rep.assume("a compilation that does not terminate within 600 s ends the check as inconclusive (exit 2), not as a violation");
    crate::watch::spawn_watchdog("C06", 600);
    corpus_check(&rep);
    let cases = ctx.cases(150, 4_000);
    let explore = std::env::var("C06_EXPLORE").is_ok();
    let out = run_prop(ctx, 6, cases, batch_strategy, |batch| match eval_batch(batch, &rep) {
        Ok(st) => {
            rep.evals((st.r_values + st.r_aborts) as u64);
            rep.class_n("compiles", st.compiles as u64);
            for w in batch {
                let e = gen_expr(w);
                rep.class(&format!("type:{}", e.t.name()));
                rep.class(&format!("op:{}", e.op.name()));
                if e.nontrivial() {
                    let h = hash64(format!("{:?}", (e.t, e.op, &e.a, &e.b, e.k, e.f, &e.second)).as_bytes());
                if e.second.is_some() {
                    rep.class("shape:chain-of-two-operators");
                }
                    rep.nontrivial(h);
                    rep.sample_hashed(h, || e.render());
                }
            }
            Ok(())
        }
        Err((sig, summary, replay)) => {
            if explore {
                // development aid (C06_EXPLORE=1): record every distinct signature instead of stopping at the first
                rep.violation(Violation { signature: sig, summary, replay });
                Ok(())
            } else {
                Err(format!("{sig}\u{1}{summary}"))
            }
        }
    });
    if let Some((batch, reason)) = out.failure {
        let (sig, summary) = reason.split_once('\u{1}').map(|(a, b)| (a.to_string(), b.to_string())).unwrap_or((reason.clone(), reason.clone()));
        let mut replay = match eval_batch(&batch, &rep) {
            Err((_, _, v)) => v,
            _ => json!({}),
        };
        replay["batch"] = json!(batch.iter().map(|w| w.to_vec()).collect::<Vec<_>>());
        rep.violation(Violation { signature: sig, summary, replay });
    }
    vcore::fastc::drop_thread_fastc();
    rep.finish();
}

/// regression inputs of confirmed (and repaired) findings: corpus/C06/*.json = source + expected logs or "compile-error"
fn corpus_check(rep: &Report) {
    let dir = verif_root().join("corpus/C06");
    for f in walk_files(&dir, ".json") {
        let Some(v) = read_to_string_lossy(&f).and_then(|t| serde_json::from_str::<Value>(&t).ok()) else { continue };
        let Some(src) = v["src"].as_str() else { continue };
        let name = f.file_name().map(|x| x.to_string_lossy().to_string()).unwrap_or_default();
        rep.class("corpus_cases");
        let mut problems = vec![];
        for opt in [OptLevel::Opt0, OptLevel::Opt1] {
            match (build(src, opt), &v["expect"]) {
                (Built::Declined(_), Value::String(s)) if s == "compile-error" => {}
                (Built::Code(bc), Value::Object(o)) => {
                    let want: Vec<String> = o.get("logs").and_then(|l| l.as_array()).map(|a| a.iter().filter_map(|x| x.as_str().map(|s| s.to_string())).collect()).unwrap_or_default();
                    let got: Vec<String> = all_logs(&exec::run_script(&bc, &[])).iter().map(hex::encode).collect();
                    if got != want {
                        problems.push(format!("logs {:?}, expected {:?}", got, want));
                    }
                }
                (Built::Code(_), _) => problems.push("compiles, but a compile error is expected".into()),
                (Built::Declined(f), _) => problems.push(format!("does not compile: {:?}", f.errors.first())),
                (Built::Crashed(m), _) => problems.push(m),
            }
        }
        if !problems.is_empty() {
            rep.violation(Violation { signature: format!("corpus:{name}"), summary: format!("regression input {name}: {}", problems.join("; ")), replay: json!({"corpus_file": f.display().to_string(), "src": src, "problems": problems}) });
        }
    }
}

pub fn dump(args: &[String]) {
    let seed: u64 = args.first().and_then(|s| s.parse().ok()).unwrap_or(1);
    let batch = gen_one(seed, &batch_strategy());
    let exprs: Vec<Expr> = batch.iter().map(gen_expr).collect();
    for e in &exprs {
        println!("// {} : {} -> {:?} (model {:?})", e.t.name(), e.src(), run_time(e), e.model().map(hex::encode));
    }
    let items: Vec<(usize, &Expr)> = exprs.iter().enumerate().collect();
    println!("{}", k_program(&items));
    println!("{}", f_program(&items));
    let ctx = Ctx::new("C06", "quick");
    let rep = Report::new(&ctx, "dump");
    let t0 = std::time::Instant::now();
    match eval_batch(&batch, &rep) {
        Ok(st) => println!("// ok: R values {} aborts {}; K ok {} declined {}; F ok {} ccp {}; abort-checked {}; compiles {}; {} ms", st.r_values, st.r_aborts, st.k_ok, st.k_declined, st.f_ok, st.ccp_ok, st.abort_checked, st.compiles, t0.elapsed().as_millis()),
        Err((sig, s, v)) => println!("// FAIL {sig}: {s}\n{}", serde_json::to_string_pretty(&v).unwrap()),
    }
    vcore::fastc::drop_thread_fastc();
    std::process::exit(0);
}

pub fn replay(case: &Value) -> Result<(), String> {
    let batch: Vec<Words> = case["batch"]
        .as_array()
        .ok_or("replay file has no batch")?
        .iter()
        .map(|w| {
            let mut a = [0u16; 10];
            for (k, x) in w.as_array().into_iter().flatten().enumerate().take(10) {
                a[k] = x.as_u64().unwrap_or(0) as u16;
            }
            a
        })
        .collect();
    let ctx = Ctx::new("C06", "quick");
    let rep = Report::new(&ctx, "replay");
    match eval_batch(&batch, &rep) {
        Ok(_) => Ok(()),
        Err((sig, summary, _)) => Err(format!("{sig}: {summary}")),
    }
}
