//! Parser for the witnesses printed in `MatchExpressionNonExhaustive { missing_patterns }` (Display of the analysis'
//! `Pattern`, see sway-core .../match_expression/analysis/pattern.rs) and typed matching of a witness against a value.
use crate::c14model::*;

#[derive(Clone, Debug, PartialEq, Eq)]
pub enum Bound {
    Min,
    Max,
    N(u64),
}
#[derive(Clone, Debug, PartialEq, Eq)]
pub enum W {
    Wild,
    Range(Bound, Bound),
    Bool(bool),
    Tuple(Vec<W>),
    Enum(String, String, Box<W>),
    /// fields, has `...` tail
    Struct(String, Vec<(String, W)>, bool),
    Or(Vec<W>),
}

#[derive(Clone, Debug, PartialEq)]
enum Tok {
    Id(String),
    Num(u64),
    LBr,
    RBr,
    LPar,
    RPar,
    LCur,
    RCur,
    Comma,
    Colon,
    ColCol,
    Dots,
    Bar,
}

fn lex(s: &str) -> Result<Vec<Tok>, String> {
    let b: Vec<char> = s.chars().collect();
    let mut i = 0;
    let mut out = vec![];
    while i < b.len() {
        let c = b[i];
        match c {
            ' ' => i += 1,
            '[' => { out.push(Tok::LBr); i += 1 }
            ']' => { out.push(Tok::RBr); i += 1 }
            '(' => { out.push(Tok::LPar); i += 1 }
            ')' => { out.push(Tok::RPar); i += 1 }
            '{' => { out.push(Tok::LCur); i += 1 }
            '}' => { out.push(Tok::RCur); i += 1 }
            ',' => { out.push(Tok::Comma); i += 1 }
            '|' => { out.push(Tok::Bar); i += 1 }
            ':' => {
                if b.get(i + 1) == Some(&':') {
                    out.push(Tok::ColCol);
                    i += 2
                } else {
                    out.push(Tok::Colon);
                    i += 1
                }
            }
            '.' => {
                if b.get(i + 1) == Some(&'.') && b.get(i + 2) == Some(&'.') {
                    out.push(Tok::Dots);
                    i += 3
                } else {
                    return Err(format!("stray '.' at {i}"));
                }
            }
            c if c.is_ascii_digit() => {
                let st = i;
                while i < b.len() && b[i].is_ascii_digit() {
                    i += 1
                }
                let t: String = b[st..i].iter().collect();
                out.push(Tok::Num(t.parse().map_err(|_| format!("bad number {t}"))?));
            }
            c if c.is_alphabetic() || c == '_' => {
                let st = i;
                while i < b.len() && (b[i].is_alphanumeric() || b[i] == '_') {
                    i += 1
                }
                out.push(Tok::Id(b[st..i].iter().collect()));
            }
            c => return Err(format!("unexpected character {c:?} at {i}")),
        }
    }
    Ok(out)
}

struct P {
    t: Vec<Tok>,
    p: usize,
}
impl P {
    fn peek(&self) -> Option<&Tok> {
        self.t.get(self.p)
    }
    fn eat(&mut self, t: &Tok) -> bool {
        if self.peek() == Some(t) {
            self.p += 1;
            true
        } else {
            false
        }
    }
    fn expect(&mut self, t: Tok) -> Result<(), String> {
        if self.eat(&t) {
            Ok(())
        } else {
            Err(format!("expected {t:?} at token {} (found {:?})", self.p, self.peek()))
        }
    }
    fn or(&mut self) -> Result<W, String> {
        let mut alts = vec![self.atom()?];
        while self.eat(&Tok::Bar) {
            alts.push(self.atom()?);
        }
        Ok(if alts.len() == 1 { alts.pop().unwrap() } else { W::Or(alts) })
    }
    fn bound(&mut self) -> Result<Bound, String> {
        match self.peek().cloned() {
            Some(Tok::Num(n)) => {
                self.p += 1;
                Ok(Bound::N(n))
            }
            Some(Tok::Id(s)) if s == "MIN" => {
                self.p += 1;
                Ok(Bound::Min)
            }
            Some(Tok::Id(s)) if s == "MAX" => {
                self.p += 1;
                Ok(Bound::Max)
            }
            o => Err(format!("expected a range bound, found {o:?}")),
        }
    }
    fn atom(&mut self) -> Result<W, String> {
        match self.peek().cloned() {
            Some(Tok::Num(n)) => {
                self.p += 1;
                Ok(W::Range(Bound::N(n), Bound::N(n)))
            }
            Some(Tok::LBr) => {
                self.p += 1;
                let lo = self.bound()?;
                self.expect(Tok::Dots)?;
                let hi = self.bound()?;
                self.expect(Tok::RBr)?;
                Ok(W::Range(lo, hi))
            }
            Some(Tok::LPar) => {
                self.p += 1;
                let mut es = vec![];
                if !self.eat(&Tok::RPar) {
                    loop {
                        es.push(self.or()?);
                        if self.eat(&Tok::RPar) {
                            break;
                        }
                        self.expect(Tok::Comma)?;
                    }
                }
                Ok(W::Tuple(es))
            }
            Some(Tok::Id(s)) => {
                self.p += 1;
                if s == "_" {
                    return Ok(W::Wild);
                }
                if s == "true" || s == "false" {
                    return Ok(W::Bool(s == "true"));
                }
                if self.eat(&Tok::ColCol) {
                    let v = match self.peek().cloned() {
                        Some(Tok::Id(v)) => {
                            self.p += 1;
                            v
                        }
                        o => return Err(format!("expected a variant name, found {o:?}")),
                    };
                    self.expect(Tok::LPar)?;
                    // a unit payload prints as `()` (a tuple pattern without elements) or `_`
                    let inner = if self.peek() == Some(&Tok::RPar) { W::Tuple(vec![]) } else { self.or()? };
                    self.expect(Tok::RPar)?;
                    return Ok(W::Enum(s, v, Box::new(inner)));
                }
                if self.eat(&Tok::LCur) {
                    let mut fs = vec![];
                    let mut rest = false;
                    loop {
                        if self.eat(&Tok::RCur) {
                            break;
                        }
                        if self.eat(&Tok::Dots) {
                            rest = true;
                            self.expect(Tok::RCur)?;
                            break;
                        }
                        let f = match self.peek().cloned() {
                            Some(Tok::Id(f)) => {
                                self.p += 1;
                                f
                            }
                            o => return Err(format!("expected a field name, found {o:?}")),
                        };
                        self.expect(Tok::Colon)?;
                        fs.push((f, self.or()?));
                        if !self.eat(&Tok::Comma) {
                            self.expect(Tok::RCur)?;
                            break;
                        }
                    }
                    return Ok(W::Struct(s, fs, rest));
                }
                Err(format!("unexpected identifier {s}"))
            }
            o => Err(format!("unexpected token {o:?}")),
        }
    }
}

pub fn parse_witness(s: &str) -> Result<W, String> {
    let mut p = P { t: lex(s)?, p: 0 };
    let w = p.or()?;
    if p.p != p.t.len() {
        return Err(format!("trailing tokens after position {}", p.p));
    }
    Ok(w)
}

/// `missing_patterns` is "`w1`, `w2`, ..." (witness_report.rs Display)
pub fn split_missing(s: &str) -> Vec<String> {
    let s = s.trim();
    let s = s.strip_prefix('`').unwrap_or(s);
    let s = s.strip_suffix('`').unwrap_or(s);
    s.split("`, `").map(|x| x.to_string()).collect()
}

impl W {
    /// Does the witness denote value `v` of type `t`? Err = the witness is not a pattern of type `t`.
    pub fn denotes(&self, d: &Decls, t: &Ty, v: &Val) -> Result<bool, String> {
        match (self, t, v) {
            (W::Wild, _, _) => Ok(true),
            (W::Or(alts), _, _) => {
                let mut any = false;
                for a in alts {
                    any |= a.denotes(d, t, v)?;
                }
                Ok(any)
            }
            (W::Range(lo, hi), Ty::U8, Val::U8(n)) => {
                let lo = match lo {
                    Bound::Min => 0,
                    Bound::N(n) => *n,
                    Bound::Max => 255,
                };
                let hi = match hi {
                    Bound::Min => 0,
                    Bound::N(n) => *n,
                    Bound::Max => 255,
                };
                if lo > 255 || hi > 255 || lo > hi {
                    return Err(format!("range [{lo}...{hi}] is not a u8 range"));
                }
                Ok(lo <= *n as u64 && *n as u64 <= hi)
            }
            (W::Bool(b), Ty::Bool, Val::Bool(x)) => Ok(b == x),
            (W::Tuple(ws), Ty::Unit, Val::Unit) if ws.is_empty() => Ok(true),
            (W::Tuple(ws), Ty::Tuple(ts), Val::Tuple(vs)) => {
                if ws.len() != ts.len() {
                    return Err(format!("tuple witness with {} elements for a tuple type with {}", ws.len(), ts.len()));
                }
                let mut all = true;
                for ((w, t), v) in ws.iter().zip(ts).zip(vs) {
                    all &= w.denotes(d, t, v)?;
                }
                Ok(all)
            }
            (W::Enum(en, vn, w), Ty::Enum(e), Val::Enum(_, vi, pv)) => {
                if *en != format!("E{e}") {
                    return Err(format!("enum witness {en} for type E{e}"));
                }
                let k: usize = vn.strip_prefix('V').and_then(|x| x.parse().ok()).ok_or(format!("unknown variant {vn}"))?;
                if k >= d.enums[*e].len() {
                    return Err(format!("unknown variant {vn}"));
                }
                if k != *vi {
                    // still type-check the payload against the variant it names
                    return Ok(false);
                }
                w.denotes(d, &d.enums[*e][k], pv)
            }
            (W::Struct(sn, fs, _rest), Ty::Struct(s), Val::Struct(_, vs)) => {
                if *sn != format!("S{s}") {
                    return Err(format!("struct witness {sn} for type S{s}"));
                }
                let mut all = true;
                for (f, w) in fs {
                    let k: usize = f.strip_prefix('f').and_then(|x| x.parse().ok()).ok_or(format!("unknown field {f}"))?;
                    if k >= vs.len() {
                        return Err(format!("unknown field {f}"));
                    }
                    all &= w.denotes(d, &d.structs[*s][k], &vs[k])?;
                }
                Ok(all)
            }
            (w, t, _) => Err(format!("witness {w:?} is not a pattern of type {}", d.ty_str(t))),
        }
    }
}
