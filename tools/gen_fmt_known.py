#!/usr/bin/env python3
"""Maintenance tool (never run by a check): merge formatter findings discovered with VERIF_DISCOVER=1 into known_findings.json.
usage: gen_fmt_known.py C18 discover_output.txt [...]"""
import json, sys, hashlib
prop = sys.argv[1]
kf = json.load(open('/verif/known_findings.json'))
have = {(e['property'], e['signature']) for e in kf['findings']}
added = 0
for fn in sys.argv[2:]:
    for line in open(fn, errors='replace'):
        if line.startswith('DISCOVERED-T1\t'):
            sig = line.rstrip('\n').split('\t', 1)[1]
            tr, cls, f = sig.split('|', 2)
            what = f"swayfmt on {f} after source transform `{tr}`: {cls}"
        elif line.startswith('DISCOVERED-T2\t'):
            sig = line.rstrip('\n').split('\t')[2]
            what = f"random source variants (whitespace re-flow / inserted comments / stretched identifiers), coarse class: {sig}"
        else:
            continue
        if (prop, sig) in have:
            continue
        have.add((prop, sig))
        key = f"{prop}-fmt-" + hashlib.sha256(sig.encode()).hexdigest()[:10]
        kf['findings'].append({"property": prop, "key": key, "status": "known", "signature": sig, "what": what})
        added += 1
json.dump(kf, open('/verif/known_findings.json', 'w'), indent=1, ensure_ascii=False)
print("added", added)
