#!/bin/bash
# Mutant lab: run a check against a patched COPY of /repo without touching /repo or /verif's evidence.
#   tools/lab.sh run <patch.diff|-> <Cnn> [quick|thorough]   apply patch to the lab worktree, rebuild the lab harness, run, revert
#   tools/lab.sh destroy                                       remove the lab (worktree + build output)
# Serialised by flock; the first use costs one cold build (~15 min). Exit code = the check's exit code.
# Environment passed through: VERIF_SEED, VERIF_SCALE, VERIF_THREADS.
set -u
LAB=/var/tmp/sway-lab
LOCK=/var/tmp/sway-lab.lock
cmd="${1:-}"
exec 9>"$LOCK"
flock 9
case "$cmd" in
  destroy)
    git -C /repo worktree remove --force "$LAB/repo" 2>/dev/null
    rm -rf "$LAB"; git -C /repo worktree prune; exit 0 ;;
  run) ;;
  *) echo "usage: lab.sh run <patch|-> <Cnn> [tier] | destroy" >&2; exit 2 ;;
esac
patch="$2"; prop="$3"; tier="${4:-quick}"
mkdir -p "$LAB/verif/evidence"
if [ ! -d "$LAB/repo/.git" ] && [ ! -f "$LAB/repo/.git" ]; then
  git -C /repo worktree add --detach "$LAB/repo" HEAD >/dev/null 2>&1 || { echo "cannot create lab worktree" >&2; exit 2; }
fi
# bring the lab worktree to /repo's HEAD, clean
git -C "$LAB/repo" checkout -q --detach "$(git -C /repo rev-parse HEAD)" 2>/dev/null
git -C "$LAB/repo" checkout -q -- . ; git -C "$LAB/repo" clean -fdq -e target
# sync the harness sources with paths rewritten
rsync -a --delete --exclude target /verif/harness/ "$LAB/harness/"
find "$LAB/harness" -name Cargo.toml -exec sed -i "s#\"/repo/#\"$LAB/repo/#g" {} +
sed -i "s#/verif/harness/target#$LAB/target#" "$LAB/harness/.cargo/config.toml"
rsync -a /verif/known_findings.json "$LAB/verif/"; rsync -a --delete /verif/known_findings.d "$LAB/verif/" 2>/dev/null; rsync -a --delete /verif/corpus "$LAB/verif/" 2>/dev/null
if [ "$patch" != "-" ]; then
  git -C "$LAB/repo" apply "$patch" || { echo "patch does not apply" >&2; exit 2; }
fi
. /verif/tools/binmap.sh; bin=$(bin_for "$prop")
( cd "$LAB/harness" && CARGO_NET_OFFLINE=true cargo build --release -p "$bin" >"$LAB/build.log" 2>&1 ) || { tail -30 "$LAB/build.log" >&2; echo "LAB: build failed" >&2; git -C "$LAB/repo" checkout -q -- .; exit 2; }
( cd "$LAB/verif" && VERIF_ROOT="$LAB/verif" VERIF_REPO="$LAB/repo" "$LAB/target/release/$bin" "$prop" "$tier" )
rc=$?
git -C "$LAB/repo" checkout -q -- . ; git -C "$LAB/repo" clean -fdq -e target
exit $rc
