#!/usr/bin/env python3
"""Maintenance tool: regenerate /verif/MANIFEST.json from the table below and validate it."""
import json, subprocess, sys
base = json.load(open('/root/.vp/BASELINE.json'))
import subprocess as _sp
HOOK_COMMITS = [l.split()[0] for l in _sp.run(['git','-C','/repo','log','--format=%h %s'],capture_output=True,text=True).stdout.splitlines() if l.split(' ',1)[1].startswith('verif hook')][::-1]
ALL = [f"C{i:02d}" for i in range(1, 31)]
# id -> (technique, level text, level note, design_ref, engine)
CHECKS = {
 "C16": ("proptest structured text mutation + token soup; in-bounds span oracle",
         "Exploration: ~160k (quick) / 12M (thorough) mutated repo sources and token soups are lexed and parsed on the real sway-parse; any panic, Err without a diagnostic, or span outside the input / off a char boundary is a violation. Crash-freedom over all inputs cannot be proved by testing; generated search with shrinking is the strongest practical evidence.",
         "Inputs are valid UTF-8 with nesting depth <= 200 (stack exhaustion out of scope); spans are checked for tokens, items, attributes and every diagnostic.", "4/C16", "vp-text"),
 "C18": ("systematic source transforms of the whole repo corpus + proptest variants; idempotence oracle format(format(x)) == format(x)",
         "Exploration under the default configuration: every repo .sw file x 8 fixed source transformations (precise, per-input known findings) plus random re-flow/comment/stretch variants (coarse causal classes). A formatter change that breaks idempotence on any corpus file or transform not already listed is reported.",
         "Default formatter configuration only; the unchanged tree is not idempotent on ~160 listed (file, transform) inputs, which are pinned as known findings; random variants attribute failures that vanish without the inserted comments/re-flows to four coarse known classes.", "4/C18", "vp-text"),
 "C19": ("systematic source transforms of the whole repo corpus + proptest variants; parse + token-sequence + comment-sequence oracle",
         "Exploration under the default configuration: formatted output must parse, have the same token sequence modulo five documented cosmetic rewrites, and the same comment sequence, for every repo .sw file x 8 transformations plus random variants.",
         "Token comparison normalises trailing commas, use-tree braces/sorting, parentheses around a single separator-delimited element and string-literal escapes; ~80 listed inputs lose comments or produce unparsable text on the unchanged tree (known findings).", "4/C19", "vp-text"),

 "C02": ("proptest tape -> typed Sway script generator; differential oracle O0 vs O1 on the FuelVM (return data, logs, revert status)",
         "Exploration: 800 (quick) / 40k (thorough) generated scripts, each emitted in two variants (operand-masked arithmetic that cannot abort, and plain), compiled in process with the real pipeline at O0 and O1 and run on the FuelVM with 8 boundary-biased argument tuples; any difference in return data, logged values or revert status is a violation. Two recorded findings are attributed by causal re-tests (release continues past a dead arithmetic abort; difference vanishes when the release-only memcpyprop_reverse pass is skipped).",
         "Scripts only (no contracts/predicates); in-process pipeline with a pre-compiled std instead of the forc CLI; programs the O1 pipeline rejects with an internal compiler error (C17 findings, ~10%) are skipped; a release build that drops a live overflow check would be attributed to the dead-abort finding.", "4/C02", "vp"),
 "C17": ("proptest tape -> typed Sway script generator; no-panic / no-ICE oracle over the full pipeline at O0 and O1",
         "Exploration: 700 (quick) / 40k (thorough) generated well-typed scripts x 2 emission variants compiled through compile_to_ast -> ast_to_asm -> asm_to_bytecode at O0 and O1; a panic or CompileError::Internal is a violation, identified by stage and first message line. Crash-freedom over all packages cannot be shown by testing; this samples the well-typed fragment the generator covers.",
         "Domain restricted to well-typed generated scripts (ill-typed / mutated corpus programs are not generated yet); a compilation exceeding 120 s ends the check as inconclusive (exit 2).", "4/C17", "vp"),
 "C20": ("proptest graph generator; round-trip oracle Lock::from_graph -> TOML -> to_graph",
         "Exploration: 600k (quick) / 12M (thorough) generated package graphs (member/path/git/ipfs/registry sources, renamed and contract dependencies with salts, same-named packages) are written to Forc.lock text and read back; node and edge multisets, structural source equality and lock-text stability are compared.",
         "Tier A strings only contain characters the manifest validation admits; adversarial tier B (refs/dependency names with `( ) # ?`) is run for crash-freedom and counted, not judged. Git Rev references equal the pinned hash.", "4/C20", "vp"),
 "C21": ("proptest fragment soups + text/TOML-structure mutation of the repo's 1121 Forc.lock files; no-panic oracle",
         "Exploration: 1.5M (quick) / 30M (thorough) source strings, dependency lines and whole lock files are loaded through source::Pinned::from_str, toml + Lock::to_graph (+ compilation_order); any panic is a violation.",
         "Inputs are valid UTF-8; only panics are judged (an Err is the documented outcome for malformed input).", "4/C21", "vp"),
 "C22": ("proptest DAG/cyclic graph generator; order-validity oracle with independent cycle detection",
         "Exploration: 2M (quick) / 40M (thorough) package graphs (multi-edges, holes, disconnected parts, back edges, self loops): compilation_order must be a permutation with dependencies first for acyclic graphs and an error for cyclic ones (cyclicity decided by the harness's own DFS).",
         "Graph sizes up to 39 nodes.", "4/C22", "vp"),
 "C01": ("proptest program generator + reference interpreter (eager and lazy/poison semantics) and per-width operator tables on boundary-derived operands; oracle: FuelVM outcome of debug and release builds == reference",
         "Exploration: (a) 40k (quick) / 2M (thorough) operator-table runs: one script per width u8..u256 with + - * / % & | ^ << >> comparisons ! and u64 narrowing, compiled at O0 and O1, on operand pairs derived to sit exactly on the checked boundaries (a+b = 2^w, a-b = -1, a*b just above/below max, division by zero), against big-integer arithmetic with the documented aborts; (b) 300 (quick) / 20k (thorough) generated scripts (ints u8..u256, bool, b256, tuples, structs, enums, arrays, if/while/match/break/continue/early return, calls, assert/require/log; shape knobs near-duplicate functions, register pressure, call chains, big aggregates) in an operand-masked variant (cannot abort in arithmetic; strict equality with the interpreter) and the plain variant, debug and release, 8 argument tuples each: return data, logged values and abort class must equal the reference interpreter's.",
         "Fragment restrictions: shifts < width, run-time array indices taken modulo the length (upstream issue #7521: no bounds check is emitted), no recursion/asm/storage/heap types, e2e run corpus not included. Two recorded findings are attributed causally: dead arithmetic aborts eliminated (decided by the lazy reference semantics; release-only fallback rule counted separately) and memcpyprop_reverse (release without that pass agrees).", "12/C01", "vp"),
 "C03": ("proptest program generator x pass-pipeline generator; differential oracle on the FuelVM between the O0 pass list and the same list with registered IR passes inserted",
         "Exploration: 140 (quick) / 6000 (thorough) generated scripts x 2 emission variants; for each, every one of the 18 registered transforms is inserted alone after lower-init-aggr and before the mandatory O0 tail, plus 4 random sequences of 2-6 transforms (~6k / ~260k pipelines); the real backend must accept the IR and the bytecode must give the same return data, logs and revert/panic outcome as the baseline on 8 argument tuples.",
         "IR modules are the initial IR of generated scripts only (no contracts, no e2e corpus modules); pipelines whose IR fails verification are left to C04; three recorded findings are attributed by causal re-tests (dead arithmetic abort; memcpyprop_reverse; backend rejects cbr to one block with different arguments).", "12/C03", "vp"),
 "C04": ("proptest program generator + .ir corpus x random pass sequences; invariant oracle = IR verifier (SSA dominance, force_verify_ir) after every pass, no panic",
         "Exploration: 4000 (quick) / 200k (thorough) cases: initial IR of generated scripts (80%) or a consistent .ir file of sway-ir/tests (20%), then lower-init-aggr and 1-12 passes drawn with repetition from the 18 transforms + module-verifier, each run through PassManager::run with verify_ssa_dominance and force_verify_ir; any IrError (except an over-reported `modified` flag) or panic is a violation, identified by pass + message.",
         "Hand-written corpus IR is admitted only if calls/branches are type-consistent and no never-written local is read (18 of 92 files excluded); a pass that reports `modified` although the text is unchanged is counted as benign.", "12/C04", "vp"),
 "C05": ("proptest program generator x pipeline stage; round-trip oracle print -> parse -> print (alpha-normalised, then strict fixpoint) + behavioural differential through the backend",
         "Exploration: 2000 (quick) / 100k (thorough) IR texts taken at a random stage of the O0 / O1 pipelines of generated scripts and from the .ir corpus: the text must parse and verify, re-print to the same text up to the numbering of anonymous values/metadata, re-print byte-identically from then on, and (30% of cases) the pipeline continued from the re-parsed text must give bytecode with the same outcome on 8 argument tuples.",
         "'Identical text' is read up to the printer's arena-key based value names; one recorded finding (entry-block parameter immutability flags are not read back) is attributed by a textual causal test.", "12/C05", "vp"),
 "C07": ("proptest program generator; differential oracle on the FuelVM between bytecode built with and without AbstractInstructionSet::optimize (cfg hook)",
         "Exploration: 300 (quick) / 20k (thorough) generated scripts x 2 variants x O0/O1, each built normally and with the abstract-instruction optimizer switched off through a per-thread cfg hook; both bytecodes must give the same return data, logs and revert/panic outcome on 8 argument tuples; on a difference the seven sub-passes are switched off one by one to name the culprit.",
         "Scripts only; the post-allocation peephole (AllocatedAbstractInstructionSet::optimize) is not switched.", "12/C07", "vp"),
 "C08": ("proptest program generator (register-pressure knob); invariant oracle = independent liveness recomputation over the observed allocation (cfg hook)",
         "Exploration: 420 (quick) / 20k (thorough) generated scripts (a third with >= 40 simultaneously live values and a call in between) x 2 variants x O0/O1; every function's allocation (~10k quick) is dumped as plain data through a cfg hook and checked: own CFG from labels/jumps, own backward liveness, no definition into a machine register holding another live virtual register (MOVE sources excepted), one machine register per virtual register, every spill-slot refill reached only by spills of the same register.",
         "def/use sets come from the allocator's own tables; the behavioural half is C02/C07's; spill slots beyond 12-bit offsets are not tracked.", "12/C08", "vp"),
 "C09": ("proptest ABI type-tree/value generator; reference codec (own encoding-v1 codec cross-checked with fuels-core driven by the program's JSON ABI) vs. ReturnData/LogData of compiled scripts on the FuelVM",
         "Exploration: 400 (quick) / 10k (thorough) generated type trees (depth <= 4; ints, bool, b256, str[N], str, arrays, tuples, generic structs/enums, Option/Result, Vec, Bytes, String) x 16 values: a script `main(x: T, raw: Bytes) -> T` built by the real forc_pkg::compile logs x, encode(x), abi_decode(encode(x)), projections, literals and abi_decode(raw); every log and the return data must equal the reference encoding, the JSON ABI must describe the generated tree, and fuels-core must decode the return data back.",
         "Scripts only; printable-ASCII text; Vec <= 4, Bytes <= 13, str <= 16; one recorded finding (JSON ABI of an inferred tuple/array type of a generic field leaves the type parameter unbound) is excluded from logged projections and pinned.", "12/C09", "vp-abi"),
 "C10": ("proptest layout-biased type/value generator + invalid-byte generator; oracle: raw memory == reference encoding whenever the program reports the type trivially en/decodable; invalid bytes must abort",
         "Exploration: 400 (quick) / 10k (thorough) type trees in four modes (likely-trivial, near-miss, general fixed, general dynamic) x 8 values + invalid inputs (bool bytes 2..255, enum tags >= variant count incl. 2^63 / u64::MAX, truncated, random): the script logs is_encode_trivial / is_decode_trivial, raw memory, encode(x), abi_decode(raw); classified-trivial types must have memory == canonical bytes, and bytes the reference decoder rejects must abort before anything is logged or returned.",
         "Constrains only types the program itself classifies as trivial; truncated input may abort or yield a valid value (BufferReader carries no length).", "12/C10", "vp-abi"),
 "C13": ("proptest configurable-set generator; oracle: bytecode patched at the JSON ABI offsets with reference-encoded replacements, run on the FuelVM, observed values vs. model",
         "Exploration: 400 (quick) / 8000 (thorough) scripts with 1-10 configurables of fixed-size types (incl. enums, empty structs; declaration order != name order) and neighbouring constants, 5 patch sets each (none, one, subset, all, another one): patched configurables must read the new value, all others and the neighbouring constant their compiled-in ones; slots must lie inside the binary, be pairwise disjoint and not precede the prelude's configurables offset.",
         "Scripts only (no contract variant); fixed-size types only (the compiler rejects str in configurables).", "12/C13", "vp-abi"),
 "C15": ("generated workspaces built by the real forc in k fresh processes; oracle: byte-identical bytecode, JSON ABI, storage slots and derived ids across processes",
         "Exploration: 5 (quick) / 40 (thorough) generated workspaces of 10 members (generated scripts, templated contracts with storage/configurables/generics/duplicate helpers/many constants, predicates, a library) + corpus packages, debug and release, each built in k = 3 (quick) / 6 (thorough) fresh processes (different hash seeds); sha256 of bytecode, ABI JSON text, storage-slot JSON, contract id / predicate root and written artefacts must match.",
         "Same machine and paths; thread timing not varied; detection power against a 2-way order flip is 1 - 2^-(k-1) per affected package.", "12/C15", "vp-proc"),
 "C25": ("proptest schedules over real processes stepped through cfg hooks in fs_locking (+ SIGKILL crash points); history-invariant oracle evaluated on the real execution",
         "Exploration: 9 pinned + 192 enumerated + 240 random (quick) / 4800 + 4000 (thorough) histories of 2-3 real processes (mark, unmark, is_file_dirty, cleanup, lock/release on a handle, exit, optional SIGKILL; flags pre-seeded stale / empty) interleaved at the step points between the file-system operations: a flag held by a live process must be seen by every check lying inside the hold interval and by a fresh observer at the end; flags of dead owners must read clean; no actor may fail.",
         "Interleavings at hook granularity only; no pid reuse; liveness is what the real `ps` reports. Six recorded signatures (two root causes: stale-flag removal ABA, concurrent lock) are attributed by controller-side reads of the flag files.", "12/C25", "vp-proc"),
 "C06": ("proptest constant-expression generator (boundary-derived operands); differential oracle: run-time evaluation on the FuelVM (reference) vs. const evaluation (const / configurable) and optimizer folding",
         "Exploration: 150 (quick) / 4000 (thorough) batches of <= 32 expressions over u8..u256/b256 (+ - * / % & | ^ << >> ! comparisons, as_* / try_as_* conversions, two-operator chains; operands on and next to the overflow / underflow / division-by-zero / shift-width boundaries): route R runs a per-type operator-table script with the operands as script data; route K evaluates the same expression in const and configurable initializers (plain, via helper fn, inside aggregates, via another const) and reads it back; route F writes it on literals in a function body built at O1 and O0 (direct, through lets, helper fn, widening, ccp form). If R returns v, K and F must yield v or decline with an ordinary diagnostic; if R aborts, K must be a compile error and F must abort without logging.",
         "Casts and u8 arithmetic mostly decline in the K route (std uses asm there); the raw __not intrinsic is not generated.", "12/C06", "vp-sem"),
 "C14": ("proptest scrutinee-type and pattern-matrix generator; brute-force enumeration of the value space as reference for the compiler's structured diagnostics and for the executed match",
         "Exploration: 1500 (quick) / 40k (thorough) matches over bool, u8, enums (<= 4 variants, payloads), tuples/structs of these (<= 4096 values): 1-8 arms of literals, constructors, consts, nested tuple/struct patterns (any field order, `..`, shorthand), or-patterns, wildcards, bindings; built randomly, with a catch-all, or as a perturbed exact partition. MatchExpressionNonExhaustive iff some value is uncovered; every printed witness must parse, be of the scrutinee type and denote only uncovered values; an unreachable-arm warning on arm i iff no value has arm i as first match; a quarter of the cases also run (O0 and O1) on every value: the first matching arm (and its bound leaf) must be returned.",
         "u8 is the only integer scrutinee type; diagnostics are read from in-process compile_to_ast; ~0.2% of generated matrices with nested or-patterns are rejected by the type checker and counted.", "12/C14", "vp-sem"),
 "C24": ("harness-owned schedules of the real ServerState (worker thread, channel, Notify) stepped through cfg hooks: pinned schedules + sleep-set DFS over 2-event scripts + proptest schedules; structural no-hang and no-lost-edit invariants",
         "Exploration: 10 pinned + 300 DFS executions per 2-event script + 640 random schedules (quick) / 6000 + 30k (thorough): client scripts Open followed by 1-4 of Change vK / ChangeBroken / Save / Symbols (waits for parsing) / Open on a one-file no-std project; every actor (handlers, compilation worker incl. check_should_abort) stops at each hook point and the controller releases one step at a time, so an execution is a pure function of (script, choices). (a) when no transition is enabled every handler must have returned (hang detected structurally, not by timeout); (b) at quiescence the version markers in the compiled token map equal those of the server's document; (c) whoever requests a compilation has its document on disk.",
         "Handlers interleave with each other only where a handler future returns Pending (tower-lsp polls them from one task); file I/O is not a yield point; <= 5 events; only [Open, Symbols] is enumerated exhaustively in quick. One recorded finding (Save drains a pending Change request and re-sends it unversioned) is attributed by a trace predicate and pinned.", "12/C24", "vp-lsp"),
 "C26": ("proptest edit histories sent as incremental didChange to one long-lived real server vs. a fresh server per step; differential oracle on diagnostics, document symbols and token triples of the edited file",
         "Exploration: 96 no-std + 4 std (quick) / 4000 + 120 (thorough) histories of 3-15 edits (insert/delete item, rename at definition and uses or definition only, add/remove struct field with uses, change body, introduce type/name/syntax errors, fix them, whitespace-only) over a generated three-module project, no-dependency LSP fixtures / e2e packages and a few std fixtures, with garbage collection on and off; after each change, once the worker has completed (counted through hooks), the edited file's diagnostics, symbols and (range, kind, name) tokens must equal those of a brand-new server opened on the same text.",
         "Dead-code warnings and token kinds on `use` lines are masked (recorded findings), a gc-only failure on a multi-module project is attributed to a recorded GC finding when the identical history passes with gc off; steps whose text yields no program are skipped; only the edited file is decisive.", "12/C26", "vp-lsp"),
 "C27": ("proptest operation histories over std Vec/Bytes/String and operator tables for u8..u256/U128 math; Rust reference models (Vec, byte strings, num-bigint) predict logs and documented reverts",
         "Exploration: 24k interpreted + 360 literal histories + 100k numeric runs (quick) / 1.5M + 9k + 6M (thorough): histories of 1-40 operations (push/pop/insert/remove/set/swap/resize/clear/split_at/append incl. self-append/splice, conversions; indices biased to 0, len-1, len, len+1) over Vec<u64>/Vec<u8>/Vec<struct>/Bytes/String run both as literal scripts and through one pre-compiled interpreter script per kind; numeric tables for u8..u256 and U128 (+ - * / % pow sqrt log log2 shifts, checked/wrapping/overflowing forms, conversions) on boundary operands. The exact log sequence must equal the model's; an operation documented under '# Reverts' must revert exactly there, all others must not.",
         "Undocumented cases are excluded (log of 0 / base < 2, U128::sqrt(0), shifts >= width, capacity after growth, raw pointer constructors); revert codes are not compared.", "12/C27", "vp-ftest"),
 "C28": ("proptest storage-layout and operation-history generator executed in-VM through forc-test; map/vector/byte-string models; periodic full dumps as non-interference oracle",
         "Exploration: 324 (quick) / 8100 (thorough) histories of 5-48 operations over generated contracts with 5-11 storage fields (StorageVec of u64 / struct / u8, StorageMap to u64 / struct, nested StorageMap<u64, StorageVec<u64>>, StorageBytes, StorageString, plain canaries; a third built with the experimental dynamic_storage implementation), keys from a shared universe of 10: every logged read must equal the model, every k operations and at the end all fields and keys are dumped and must equal the model (operations on one field/key never change another), documented reverts must happen exactly there.",
         "Vector length <= 24 (47 for small elements), slices <= 130 bytes; the bool returned by clear() on never-written slots is not checked; failing histories are reported unshrunk.", "12/C28", "vp-ftest"),
 "C29": ("proptest test-suite generator from known-outcome templates run through forc-test under several runner configurations; oracle: reported verdict == template verdict, logs == own markers, readers see initial storage",
         "Exploration: 120 (quick) / 3000 (thorough) generated library/script/contract packages with 2-25 #[test]s from 18 templates (pass; fail by assert / revert(c) / overflow / division by zero; should_revert that reverts or returns; should_revert = \"c\" with matching / different code / no revert; contract writer, reader, write-then-fail, revert inside a contract call), run with TestRunnerCount::Auto, Manual(1), Manual(3), a substring and an exact filter: every declared (matching) test is reported exactly once, passed() equals the documented verdict, each test's logs are its own markers plus the values it read, and a reader always sees the initial storage.",
         "A VM panic counts as a revert; declared codes are decimal; debug profile; failing packages are reported unshrunk.", "12/C29", "vp-ftest"),
 "C30": ("enumeration of every fault point (abort / io::Error) of a git fetch through cfg hooks, in child processes, followed by a fresh build; oracle: resolved checkout == tree of the pinned commit",
         "Fault enumeration: 4 pinned + 1 random (quick) / 4 + 60 (thorough, plus second faults during recovery) generated local git repositories (1-26 files, nested dirs, 1-3 commits, tag/branch/rev/default references, with and without Forc.lock): every fault label on the path of pin + fetch x {process abort, io::Error} (354 pairs quick) is injected in a child process with a fresh HOME, then a fresh process runs a normal plan + check, which must succeed against exactly the pinned commit's tree.",
         "Process death with the page cache intact (no power-loss semantics); crash points inside libgit2's checkout are the per-file progress callback; upstream unchanged between fault and recovery.", "12/C30", "vp-proc"),
 "C11": ("proptest contract-ABI generator (adversarial method names) + generated in-VM callers through forc-test; reference-model oracle on logs, return values and revert status",
         "Exploration: 128 (quick) / 3000 (thorough) generated contracts (1-12 methods, names sharing prefixes / lengths / substrings, 0-4 arguments of generated ABI types, optional fallback) built by the real forc and called in-VM from generated #[test]s (~1.8k calls quick): the harness predicts the exact log sequence (method index, decoded arguments, returned value in encoding v1) and end state of every test; unknown names must run the fallback or revert.",
         "Type trees depth <= 2; any revert code accepted for an unknown method; coins/gas at defaults.", "12/C11", "vp-contract"),
 "C12": ("proptest storage-declaration generator + generated in-VM readers/writers through forc-test; reference-model oracle on reads and on the emitted slot keys",
         "Exploration: 160 (quick) / 4000 (thorough) generated contracts with 1-10 storage fields (scalars, str[N], nested structs/enums/tuples up to 5+ slots, nested namespaces, explicit `in` keys, constant-expression initializers): every getter must read exactly the initializer, emitted slot keys must be sha256(0x00 || path) (+ consecutive slots) or the explicit key, pairwise distinct, and writing one field must leave all others unchanged.",
         "Arrays, zero-sized and heap types excluded from storage (unsupported by the serializer); slot contents are judged through reads.", "12/C12", "vp-contract"),
 "C23": ("proptest edit histories against a UTF-16 reference client; model-equality oracle after every change",
         "Exploration: 150k (quick) / 6M (thorough) edit histories (1-29 full and incremental changes, multi-byte and astral characters, mixed line ends, invalid ranges) applied through Documents::update_text_document; server text must equal the reference client's after every step, invalid ranges must be rejected unchanged, nothing may panic.",
         "Lone CR line ends are not generated; sloppy columns (past end of line, inside a surrogate pair) are crash-freedom only.", "4/C23", "vp-lsp"),
}
NA = {}
# checks that are finished (silent on the unchanged tree over several seeds, sensitivity-tested); others stay unclaimed
READY = set(open('/verif/tools/ready.txt').read().split())
CHECKS = {k: v for k, v in CHECKS.items() if k in READY}
checks = []
for pid in ALL:
    if pid in CHECKS:
        tech, text, note, ref, eng = CHECKS[pid]
        checks.append({
            "property_id": pid,
            "quick_cmd": f"./check {pid} quick",
            "thorough_cmd": f"./check {pid} thorough",
            "evidence_file": f"/verif/evidence/{pid}.json",
            "replay_cmd_template": "./check replay {path}",
            "engine": eng,
            "level_claimed": {"category": "fault_enumeration" if pid == "C30" else "exploration", "text": text, "design_ref": f"DESIGN.md section {ref}"},
            "level_note": note,
            "technique": tech,
        })
na = [{"property_id": p, "reason": NA.get(p, "check not built yet in this round; see DESIGN.md section 4 for the planned generated-input check")} for p in ALL if p not in CHECKS]
m = {
 "version": 1,
 "setup_cmd": "./check build",
 "hooks": {
   "guard": "--cfg fuellabs_sway_verif",
   "enable": "harness/.cargo/config.toml passes rustflags [\"--cfg\", \"fuellabs_sway_verif\"] to every harness build; /repo's own builds never see it",
   "baseline_off_cmd": base["cmd"],
   "source_commits": HOOK_COMMITS,
   "add_only": True,
 },
 "engines": [
   {"name": "vp-text", "path": "harness/vp-text", "serves_properties": ["C16", "C18", "C19"], "kind_free_text": "proptest-driven binary over sway-parse/swayfmt"},
   {"name": "vp", "path": "harness/vp", "serves_properties": [k for k,v in CHECKS.items() if v[4]=="vp"], "kind_free_text": "proptest-driven binary over sway-core/sway-ir/forc-pkg/forc-test/forc-util + FuelVM"},
   {"name": "vp-lsp", "path": "harness/vp-lsp", "serves_properties": [k for k,v in CHECKS.items() if v[4]=="vp-lsp"], "kind_free_text": "proptest-driven binary over sway-lsp"},
 ] + [
   {"name": n, "path": "harness/"+n, "serves_properties": [k for k,v in CHECKS.items() if v[4]==n], "kind_free_text": t}
   for n,t in [("vp-contract","proptest-driven binary: generated contracts built by forc and executed in-VM through forc-test"),
               ("vp-abi","proptest-driven binary: ABI type/value generator, reference codec, in-process compiler + FuelVM"),
               ("vp-ftest","proptest-driven binary: std collection / numeric histories against Rust reference models, forc-test"),
               ("vp-proc","process-actor binary: step-scheduled / fault-injected child processes over forc-util and forc-pkg"),
               ("vp-sem","proptest-driven binary: match-matrix and constant-expression generators over sway-core + FuelVM")]
   if any(v[4]==n for v in CHECKS.values())
 ],
 "checks": checks,
 "not_applicable": na,
 "notes": "All checks: exit 0 = held, exit 1 + VIOLATION line = violation not listed in known_findings.json, exit 2 = inconclusive (build failure, watchdog). Seeds via VERIF_SEED.",
}
if len(sys.argv) > 1:
    extra = json.load(open(sys.argv[1]))
json.dump(m, open('/verif/MANIFEST.json', 'w'), indent=1)
import jsonschema
jsonschema.validate(m, json.load(open('/root/.vp/MANIFEST.schema.json')))
print("MANIFEST ok:", len(checks), "checks,", len(na), "not applicable")
