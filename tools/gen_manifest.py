#!/usr/bin/env python3
"""Maintenance tool: regenerate /verif/MANIFEST.json from the table below and validate it."""
import json, subprocess, sys
base = json.load(open('/root/.vp/BASELINE.json'))
ALL = [f"C{i:02d}" for i in range(1, 31)]
# id -> (technique, level text, level note, design_ref, engine)
CHECKS = {
 "C16": ("proptest structured text mutation + token soup; in-bounds span oracle",
         "Exploration: ~160k (quick) / 12M (thorough) mutated repo sources and token soups are lexed and parsed on the real sway-parse; any panic, Err without a diagnostic, or span outside the input / off a char boundary is a violation. Crash-freedom over all inputs cannot be proved by testing; generated search with shrinking is the strongest practical evidence.",
         "Inputs are valid UTF-8 with nesting depth <= 200 (stack exhaustion out of scope); spans are checked for tokens, items, attributes and every diagnostic.", "4/C16", "vp-text"),
 "C18": ("systematic source transforms of the whole repo corpus + proptest variants; idempotence oracle format(format(x)) == format(x)",
         "Exploration under the default configuration: every repo .sw file x 8 fixed source transformations (precise, per-input known findings) plus random re-flow/comment/stretch variants (coarse causal classes). A formatter change that breaks idempotence on any corpus file or transform not already listed is reported.",
         "Default formatter configuration only; the unchanged tree is not idempotent on ~160 listed (file, transform) inputs, which are pinned as known findings; random variants attribute failures that vanish without the inserted comments/re-flows to four coarse known classes.", "4/C18", "vp-text"),
 "C19": ("systematic source transforms of the whole repo corpus + proptest variants; parse + token-sequence + comment-sequence oracle",
         "Exploration under the default configuration: formatted output must parse, have the same token sequence modulo five documented cosmetic rewrites, and the same comment sequence, for every repo .sw file x 8 transformations plus random variants.",
         "Token comparison normalises trailing commas, use-tree braces/sorting, parentheses around a single separator-delimited element and string-literal escapes; ~80 listed inputs lose comments or produce unparsable text on the unchanged tree (known findings).", "4/C19", "vp-text"),

 "C02": ("proptest tape -> typed Sway script generator; differential oracle O0 vs O1 on the FuelVM (return data, logs, revert status)",
         "Exploration: 800 (quick) / 40k (thorough) generated scripts, each emitted in two variants (operand-masked arithmetic that cannot abort, and plain), compiled in process with the real pipeline at O0 and O1 and run on the FuelVM with 8 boundary-biased argument tuples; any difference in return data, logged values or revert status is a violation. Two recorded findings are attributed by causal re-tests (release continues past a dead arithmetic abort; difference vanishes when the release-only memcpyprop_reverse pass is skipped).",
         "Scripts only (no contracts/predicates); in-process pipeline with a pre-compiled std instead of the forc CLI; programs the O1 pipeline rejects with an internal compiler error (C17 findings, ~10%) are skipped; a release build that drops a live overflow check would be attributed to the dead-abort finding.", "4/C02", "vp"),
 "C17": ("proptest tape -> typed Sway script generator; no-panic / no-ICE oracle over the full pipeline at O0 and O1",
         "Exploration: 700 (quick) / 40k (thorough) generated well-typed scripts x 2 emission variants compiled through compile_to_ast -> ast_to_asm -> asm_to_bytecode at O0 and O1; a panic or CompileError::Internal is a violation, identified by stage and first message line. Crash-freedom over all packages cannot be shown by testing; this samples the well-typed fragment the generator covers.",
         "Domain restricted to well-typed generated scripts (ill-typed / mutated corpus programs are not generated yet); a compilation exceeding 120 s ends the check as inconclusive (exit 2).", "4/C17", "vp"),
 "C20": ("proptest graph generator; round-trip oracle Lock::from_graph -> TOML -> to_graph",
         "Exploration: 600k (quick) / 12M (thorough) generated package graphs (member/path/git/ipfs/registry sources, renamed and contract dependencies with salts, same-named packages) are written to Forc.lock text and read back; node and edge multisets, structural source equality and lock-text stability are compared.",
         "Tier A strings only contain characters the manifest validation admits; adversarial tier B (refs/dependency names with `( ) # ?`) is run for crash-freedom and counted, not judged. Git Rev references equal the pinned hash.", "4/C20", "vp"),
 "C21": ("proptest fragment soups + text/TOML-structure mutation of the repo's 1121 Forc.lock files; no-panic oracle",
         "Exploration: 1.5M (quick) / 30M (thorough) source strings, dependency lines and whole lock files are loaded through source::Pinned::from_str, toml + Lock::to_graph (+ compilation_order); any panic is a violation.",
         "Inputs are valid UTF-8; only panics are judged (an Err is the documented outcome for malformed input).", "4/C21", "vp"),
 "C22": ("proptest DAG/cyclic graph generator; order-validity oracle with independent cycle detection",
         "Exploration: 2M (quick) / 40M (thorough) package graphs (multi-edges, holes, disconnected parts, back edges, self loops): compilation_order must be a permutation with dependencies first for acyclic graphs and an error for cyclic ones (cyclicity decided by the harness's own DFS).",
         "Graph sizes up to 39 nodes.", "4/C22", "vp"),
 "C23": ("proptest edit histories against a UTF-16 reference client; model-equality oracle after every change",
         "Exploration: 150k (quick) / 6M (thorough) edit histories (1-29 full and incremental changes, multi-byte and astral characters, mixed line ends, invalid ranges) applied through Documents::update_text_document; server text must equal the reference client's after every step, invalid ranges must be rejected unchanged, nothing may panic.",
         "Lone CR line ends are not generated; sloppy columns (past end of line, inside a surrogate pair) are crash-freedom only.", "4/C23", "vp-lsp"),
}
NA = {
 "C01": "a reference interpreter for the generated fragment exists in harness/vp (swaygen::Interp) but its disagreements with the VM have not been triaged to the standard needed to rule out false alarms, so the check is not claimed; C02 and C17 run the same generator",
}
checks = []
for pid in ALL:
    if pid in CHECKS:
        tech, text, note, ref, eng = CHECKS[pid]
        checks.append({
            "property_id": pid,
            "quick_cmd": f"./check {pid} quick",
            "thorough_cmd": f"./check {pid} thorough",
            "evidence_file": f"/verif/evidence/{pid}.json",
            "replay_cmd_template": "./check replay {path}",
            "engine": eng,
            "level_claimed": {"category": "fault_enumeration" if pid == "C30" else "exploration", "text": text, "design_ref": f"DESIGN.md section {ref}"},
            "level_note": note,
            "technique": tech,
        })
na = [{"property_id": p, "reason": NA.get(p, "check not built yet in this round; see DESIGN.md section 4 for the planned generated-input check")} for p in ALL if p not in CHECKS]
m = {
 "version": 1,
 "setup_cmd": "./check build",
 "hooks": {
   "guard": "--cfg fuellabs_sway_verif",
   "enable": "harness/.cargo/config.toml passes rustflags [\"--cfg\", \"fuellabs_sway_verif\"] to every harness build; /repo's own builds never see it",
   "baseline_off_cmd": base["cmd"],
   "source_commits": ["7fe56b1"],
   "add_only": True,
 },
 "engines": [
   {"name": "vp-text", "path": "harness/vp-text", "serves_properties": ["C16", "C18", "C19"], "kind_free_text": "proptest-driven binary over sway-parse/swayfmt"},
   {"name": "vp", "path": "harness/vp", "serves_properties": [k for k,v in CHECKS.items() if v[4]=="vp"], "kind_free_text": "proptest-driven binary over sway-core/sway-ir/forc-pkg/forc-test/forc-util + FuelVM"},
   {"name": "vp-lsp", "path": "harness/vp-lsp", "serves_properties": [k for k,v in CHECKS.items() if v[4]=="vp-lsp"], "kind_free_text": "proptest-driven binary over sway-lsp"},
 ],
 "checks": checks,
 "not_applicable": na,
 "notes": "All checks: exit 0 = held, exit 1 + VIOLATION line = violation not listed in known_findings.json, exit 2 = inconclusive (build failure, watchdog). Seeds via VERIF_SEED.",
}
if len(sys.argv) > 1:
    extra = json.load(open(sys.argv[1]))
json.dump(m, open('/verif/MANIFEST.json', 'w'), indent=1)
import jsonschema
jsonschema.validate(m, json.load(open('/root/.vp/MANIFEST.schema.json')))
print("MANIFEST ok:", len(checks), "checks,", len(na), "not applicable")
