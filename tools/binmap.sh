# property id -> harness binary (sourced by ./check and tools/lab.sh)
bin_for() {
  case "$1" in
    C16|C18|C19) echo vp-text ;;
    C23|C24|C26) echo vp-lsp ;;
    C09|C10|C13) echo vp-abi ;;
    C27|C28|C29) echo vp-ftest ;;
    C11|C12) echo vp-contract ;;
    C15|C25|C30) echo vp-proc ;;
    C06|C14) echo vp-sem ;;
    *) echo vp ;;
  esac
}
