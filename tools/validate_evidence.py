#!/usr/bin/env python3
"""Validate MANIFEST.json and every claimed check's evidence file against the schemas in /root/.vp.
usage: python3-vt tools/validate_evidence.py   (needs jsonschema; exits 1 on any problem)"""
import json, sys, os
import jsonschema
root = os.path.dirname(os.path.dirname(os.path.abspath(__file__)))
man = json.load(open(os.path.join(root, "MANIFEST.json")))
bad = 0
try:
    jsonschema.validate(man, json.load(open("/root/.vp/MANIFEST.schema.json")))
except Exception as e:
    print("MANIFEST invalid:", str(e)[:400]); bad += 1
es = json.load(open("/root/.vp/EVIDENCE.schema.json"))
for c in man["checks"]:
    p = c["evidence_file"]
    try:
        ev = json.load(open(p))
        jsonschema.validate(ev, es)
        assert ev["property_id"] == c["property_id"], "property_id mismatch"
        assert ev["level"] == c["level_claimed"]["category"], "level mismatch"
        assert ev.get("violations", 0) == 0, "evidence records violations"
        cov = ev["coverage"]
        print(f'{c["property_id"]} ok tier={ev["tier"]} seed={ev["seed"]} evals={cov.get("evaluations")} nontrivial={cov.get("distinct_nontrivial")} samples={len(cov.get("samples", []))}')
    except Exception as e:
        print(f'{c["property_id"]} INVALID {p}: {str(e)[:300]}'); bad += 1
sys.exit(1 if bad else 0)
