#!/usr/bin/env python3
"""Import a confirmed blind seed from /var/tmp/seedwork/<pid>/<name> into /verif/seeded/<pid>/<name>.
usage: import_seed.py <pid> <name> <confirm-log> [detected_by text]"""
import json, os, shutil, sys, re
pid, name, log = sys.argv[1:4]
detected = sys.argv[4] if len(sys.argv) > 4 else None
src = f"/var/tmp/seedwork/{pid}/{name}"; dst = f"/verif/seeded/{pid}/{name}"
os.makedirs(dst, exist_ok=True)
for f in os.listdir(src):
    p = os.path.join(src, f)
    if os.path.isdir(p):
        # small demo package directories only
        size = sum(os.path.getsize(os.path.join(r, x)) for r, _, fs in os.walk(p) for x in fs)
        if size < 200_000: shutil.copytree(p, os.path.join(dst, f), dirs_exist_ok=True)
    elif os.path.getsize(p) < 300_000 and not f.startswith('with-'):
        shutil.copy(p, dst)
meta = json.load(open(os.path.join(src, "meta.json")))
# what the coordinator ran itself (scratch worktree /var/tmp/seed-<pid>, shared target dir)
txt = open(log).read()
m = re.search(r"== without patch: demo\n(.*?)== with patch: demo\n(.*?)== with patch: existing tests of (\S+)\n(.*?)== done %s/%s" % (pid, re.escape(name)), txt, re.S)
meta["property"] = pid
meta["confirmed_by_coordinator"] = {
    "worktree": f"/var/tmp/seed-{pid} (scratch git worktree of /repo, removed afterwards)",
    "ran": "tools/../seedwork/confirm.sh: demo test without the patch, demo test with the patch, then the touched crate's existing tests with the patch (cargo test -p <crate> --offline --no-fail-fast)",
    "demo_without_patch": m.group(1).strip() if m else None,
    "demo_with_patch": m.group(2).strip() if m else None,
    "existing_tests_with_patch": (m.group(3) + ": " + " | ".join(m.group(4).strip().splitlines())) if m else None,
}
if detected: meta["checks_run_against_it"] = detected
json.dump(meta, open(os.path.join(dst, "meta.json"), "w"), indent=1)
print("imported", dst)
